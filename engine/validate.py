"""Translator validation: the symbolic run of a function, evaluated at concrete inputs, must agree
with the real JIT-compiled function called on the same inputs (one subprocess per check)."""
from __future__ import annotations

import json
import os
import tempfile

import numpy as _np

from .report import run_real
from .sym import Sym

_SCRIPT = '''
import sys, os, json
import warnings; warnings.filterwarnings('ignore')
import logging; logging.disable(logging.CRITICAL)
import numpy as np
%(setup)s
def _flat(v):
    if isinstance(v, (tuple, list)):
        out = []
        for e in v: out.extend(_flat(e))
        return out
    a = np.asarray(v)
    if a.dtype == object:
        return _flat(list(a.ravel()))
    if a.dtype.kind == 'c':
        a = np.stack([a.real, a.imag], axis=-1)
    return [float(x) for x in np.asarray(a, dtype=float).ravel()]
res = []
for name, expr in ITEMS:
    try:
        res.append({'name': name, 'value': _flat(eval(expr))})
    except Exception as e:
        res.append({'name': name, 'error': type(e).__name__ + ': ' + str(e)[:300]})
print('@@JSON@@' + json.dumps(res))
'''


def flat(v):
    """Flatten symbolic/concrete results to a list of floats (complex -> re, im)."""
    if isinstance(v, Sym):
        re, im = v.re_im()
        if im.t:
            return [float(re.cval()) if re.is_const() else float('nan'), float(im.cval()) if im.is_const() else float('nan')]
        if not v.is_const():
            raise ValueError('non-constant symbolic result in validation: %r' % (v,))
        return [float(v.cval())]
    if isinstance(v, (tuple, list)):
        out = []
        for e in v:
            out.extend(flat(e))
        return out
    if isinstance(v, _np.ndarray):
        if v.dtype == object:
            return flat(list(v.ravel()))
        if v.dtype.kind == 'c':
            return flat([[x.real, x.imag] for x in v.ravel()])
        return [float(x) for x in v.ravel()]
    if isinstance(v, complex):
        return [v.real, v.imag]
    return [float(v)]


def run_items(setup, items, timeout=900):
    """items: list of (name, python expression string) evaluated in the real build.  Returns list of dicts."""
    src = _SCRIPT % {'setup': setup}
    src = src.replace('ITEMS', 'ITEMS', 1)
    body = 'ITEMS = ' + repr([(n, e) for n, e in items]) + '\n'
    src = src.replace("res = []", body + "res = []", 1)
    with tempfile.NamedTemporaryFile('w', suffix='.py', delete=False, dir='/tmp') as fh:
        fh.write(src)
        path = fh.name
    try:
        rc, out, err = run_real(path, timeout=timeout)
    finally:
        os.unlink(path)
    if '@@JSON@@' not in out:
        raise RuntimeError('validation subprocess failed rc=%s\n%s\n%s' % (rc, out[-500:], err[-1500:]))
    return json.loads(out.split('@@JSON@@', 1)[1])


def compare(chk, setup, cases, rtol=1e-9, atol=1e-11, timeout=900):
    """cases: list of (name, expr_for_real_build, symbolic_value_flat_list, input_description).
    Records agreement in the evidence; a mismatch makes the check inconclusive (encoding wrong);
    an exception in the real build is returned to the caller (list of (name, error))."""
    res = run_items(setup, [(c[0], c[1]) for c in cases], timeout=timeout)
    errors = []
    for c, r in zip(cases, res):
        name, expr, symv, inp = c
        if 'error' in r:
            errors.append((name, r['error'], expr))
            continue
        real = r['value']
        ok = len(real) == len(symv) and all(
            abs(a - b) <= atol + rtol * max(abs(a), abs(b)) for a, b in zip(real, symv))
        chk.validated(name, inp, symv[:6], real[:6], ok)
    return errors

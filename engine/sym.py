"""Symbolic value domain: exact sparse polynomial normal form over Q in 'atoms'.

Atoms
  var   input variable (real)
  imag  the imaginary unit (I*I -> -1 eagerly); all other atoms are real-valued
  sqrt  s = sqrt(P)  (one atom per canonical radicand P);  s*s -> P only at zero tests
  inv   u = 1/B      (one atom per canonical base B);      u*B -> 1 eagerly for monomial B,
                                                          by clearing denominators otherwise
  opq   F(args)      uninterpreted function application (congruence by canonical args);
                     sin/cos are opq atoms with a derivative rule and s^2 -> 1-c^2 at zero tests

A `Sym` is a dict  monomial -> Fraction  with monomial = sorted tuple of (atom, exponent>0).
Python floats are read as the simplest rational that rounds to the same double
(1.0/3.0 -> 1/3), else as their shortest decimal literal.
"""
from __future__ import annotations

import math
import numbers
from fractions import Fraction

import numpy as _np

_REAL_NP = _np


class World:
    """Registry of atoms.  One world per process (reset between harnesses if desired)."""

    def __init__(self):
        self.reset()

    def reset(self):
        self.names = []
        self.kind = []
        self.defn = []      # sqrt: radicand Sym; inv: base Sym; opq: (fname, args tuple of Sym)
        self.extra = []     # free-form dict per atom
        self.sqrt_of = {}
        self.inv_of = {}
        self.opq_of = {}
        self.var_of = {}
        self.imag = None

    def _new(self, kind, name, defn=None, extra=None):
        i = len(self.names)
        self.names.append(name if name else '%s%d' % (kind, i))
        self.kind.append(kind)
        self.defn.append(defn)
        self.extra.append(extra or {})
        return i

    def var(self, name):
        if name in self.var_of:
            i = self.var_of[name]
        else:
            i = self._new('var', name)
            self.var_of[name] = i
        return Sym({((i, 1),): Fraction(1)})

    def vars(self, names):
        if isinstance(names, str):
            names = names.split()
        return [self.var(n) for n in names]

    def I(self):
        if self.imag is None:
            self.imag = self._new('imag', 'I')
        return Sym({((self.imag, 1),): Fraction(1)})

    def atom(self, i):
        return Sym({((i, 1),): Fraction(1)})


W = World()

_FLOAT_CACHE = {}


def float_to_fraction(x):
    """Real-number meaning of a double: simplest small rational rounding to it, else its
    shortest decimal literal."""
    x = float(x)
    r = _FLOAT_CACHE.get(x)
    if r is not None:
        return r
    if x != x or x in (float('inf'), float('-inf')):
        raise ValueError('non-finite float in symbolic arithmetic: %r' % x)
    if x == int(x) and abs(x) < 2 ** 62:
        r = Fraction(int(x))
    else:
        f = Fraction(x)
        r = None
        for lim in (1000, 10 ** 6, 10 ** 9):
            c = f.limit_denominator(lim)
            if float(c) == x:
                r = c
                break
        if r is None:
            r = Fraction(repr(x))
    _FLOAT_CACHE[x] = r
    return r


def _mono_mul(a, b):
    if not a:
        return b
    if not b:
        return a
    d = dict(a)
    for i, e in b:
        d[i] = d.get(i, 0) + e
    return tuple(sorted(d.items()))


class Sym:
    __slots__ = ('t',)
    __hash__ = None

    def __init__(self, t=None):
        self.t = t if t is not None else {}

    # ------------------------------------------------------------------ construction
    @staticmethod
    def const(c):
        if not isinstance(c, Fraction):
            c = Fraction(c)
        return Sym({(): c}) if c else Sym({})

    @staticmethod
    def lift(o):
        if isinstance(o, Sym):
            return o
        if isinstance(o, (bool, _np.bool_)):
            return Sym.const(int(o))
        if isinstance(o, (int, Fraction)):
            return Sym.const(o)
        if isinstance(o, _np.integer):
            return Sym.const(int(o))
        if isinstance(o, (float, _np.floating)):
            return Sym.const(float_to_fraction(o))
        if isinstance(o, (complex, _np.complexfloating)):
            o = complex(o)
            r = Sym.const(float_to_fraction(o.real))
            if o.imag:
                r = r + W.I() * float_to_fraction(o.imag)
            return r
        if isinstance(o, _np.ndarray) and o.ndim == 0:
            return Sym.lift(o.item())
        return None

    def key(self):
        return tuple(sorted(self.t.items()))

    def is_const(self):
        return all(m == () for m in self.t)

    def cval(self):
        return self.t.get((), Fraction(0))

    def atoms(self):
        s = set()
        for m in self.t:
            for i, _ in m:
                s.add(i)
        return s

    def all_atoms(self):
        """Atoms reachable through definitions."""
        seen = set()
        todo = list(self.atoms())
        while todo:
            i = todo.pop()
            if i in seen:
                continue
            seen.add(i)
            d = W.defn[i]
            if isinstance(d, Sym):
                todo.extend(d.atoms())
            elif isinstance(d, tuple):
                for a in d[1]:
                    if isinstance(a, Sym):
                        todo.extend(a.atoms())
        return seen

    # ------------------------------------------------------------------ arithmetic
    def __add__(s, o):
        o = Sym.lift(o)
        if o is None:
            return NotImplemented
        if not o.t:
            return s
        if not s.t:
            return o
        t = dict(s.t)
        for m, c in o.t.items():
            v = t.get(m, 0) + c
            if v:
                t[m] = v
            else:
                t.pop(m, None)
        return Sym(t)

    __radd__ = __add__

    def __neg__(s):
        return Sym({m: -c for m, c in s.t.items()})

    def __pos__(s):
        return s

    def __sub__(s, o):
        o = Sym.lift(o)
        if o is None:
            return NotImplemented
        return s + (-o)

    def __rsub__(s, o):
        o = Sym.lift(o)
        if o is None:
            return NotImplemented
        return o + (-s)

    def __mul__(s, o):
        o = Sym.lift(o)
        if o is None:
            return NotImplemented
        return _mul(s, o)

    __rmul__ = __mul__

    def __truediv__(s, o):
        o = Sym.lift(o)
        if o is None:
            return NotImplemented
        if o.is_const():
            c = o.cval()
            if c == 0:
                raise ZeroDivisionError('symbolic division by constant zero')
            return Sym({m: v / c for m, v in s.t.items()})
        return _mul(s, o.inv())

    def __rtruediv__(s, o):
        o = Sym.lift(o)
        if o is None:
            return NotImplemented
        return _mul(o, s.inv())

    def inv(s):
        if s.is_const():
            c = s.cval()
            if c == 0:
                raise ZeroDivisionError('symbolic division by constant zero')
            return Sym.const(1 / c)
        if W.imag is not None and W.imag in s.atoms():
            # 1/(a + ib) = (a - ib)/(a^2 + b^2): keep every inverse atom real-valued (all non-I atoms are real)
            cj = s.conjugate()
            nrm = _mul(s, cj)
            re, im = nrm.re_im()
            if im.t:
                raise ValueError('conjugate product is not real; an atom is complex-valued')
            if len(s.t) > 1 or any(W.kind[i] != 'imag' for i, _ in next(iter(s.t))):
                return _mul(cj, re.inv())
        if len(s.t) == 1:
            (m, c), = s.t.items()
            r = Sym.const(1 / c)
            for i, e in m:
                k = W.kind[i]
                if k == 'inv':
                    r = _mul(r, W.defn[i] ** e)
                elif k == 'imag':
                    # 1/I = -I
                    r = _mul(r, (-W.I()) ** e)
                else:
                    r = _mul(r, _atom_inv(i) ** e)
            return r
        k = s.key()
        lead = k[0][1]
        base = Sym({m: c / lead for m, c in s.t.items()})
        kk = base.key()
        i = W.inv_of.get(kk)
        if i is None:
            i = W._new('inv', None, base)
            W.inv_of[kk] = i
        return Sym({((i, 1),): 1 / lead})

    def sqrt(s):
        if s.is_const():
            c = s.cval()
            if c < 0:
                raise ValueError('sqrt of negative constant')
            n, d = math.isqrt(c.numerator), math.isqrt(c.denominator)
            if n * n == c.numerator and d * d == c.denominator:
                return Sym.const(Fraction(n, d))
        if len(s.t) == 1:
            # sqrt(c * a^2e ...) with all even exponents of non-negative meaning is NOT simplified
            # (sqrt(x^2) = |x|); keep as atom.
            pass
        kk = s.key()
        i = W.sqrt_of.get(kk)
        if i is None:
            i = W._new('sqrt', None, s)
            W.sqrt_of[kk] = i
        return W.atom(i)

    def __pow__(s, e):
        if isinstance(e, Sym):
            if e.is_const():
                e = e.cval()
                if e.denominator == 1:
                    e = int(e)
                else:
                    e = float(e)
            else:
                raise TypeError('symbolic exponent')
        if isinstance(e, (float, _np.floating)) and float(e) == int(e):
            e = int(e)
        if isinstance(e, Fraction) and e.denominator == 1:
            e = int(e)
        if isinstance(e, (int, _np.integer)):
            e = int(e)
            if e < 0:
                return (s ** (-e)).inv()
            r = Sym.const(1)
            b = s
            while e:
                if e & 1:
                    r = _mul(r, b)
                e >>= 1
                if e:
                    b = _mul(b, b)
            return r
        e2 = Fraction(e) if not isinstance(e, Fraction) else e
        if isinstance(e, (float, _np.floating)):
            e2 = float_to_fraction(e)
        if (2 * e2).denominator == 1:
            n = int(2 * e2)
            r = s.sqrt()
            return r ** n
        return opaque('pow', s, Sym.const(e2))

    def __rpow__(s, b):
        raise TypeError('constant ** symbolic not supported')

    def __abs__(s):
        if s.is_const():
            return Sym.const(abs(s.cval()))
        # the radicand is formed WITHOUT nilpotent truncation: under eps^(N+1) = 0 the square of a value of pure order > N/2 would
        # vanish and a non-zero value would get magnitude 0 (and be "cleaned" by |x| <= tol tests) -- an artefact of the truncation
        saved_nil = dict(NILPOTENT)
        NILPOTENT.clear()
        try:
            if W.imag is not None and W.imag in s.atoms():
                re, im = s.re_im()
                rad = re * re + im * im
            else:
                rad = s * s
            return rad.sqrt()
        finally:
            NILPOTENT.update(saved_nil)

    # ufunc-style methods used by numpy object loops
    def conjugate(s):
        if W.imag is None:
            return s
        I = W.imag
        t = {}
        for m, c in s.t.items():
            e = dict(m).get(I, 0)
            t[m] = -c if e % 2 else c
        return Sym(t)

    conj = conjugate

    def re_im(s):
        if W.imag is None:
            return s, Sym({})
        I = W.imag
        re, im = {}, {}
        for m, c in s.t.items():
            d = dict(m)
            if d.pop(I, 0):
                im[tuple(sorted(d.items()))] = c
            else:
                re[m] = c
        return Sym(re), Sym(im)

    @property
    def real(s):
        return s.re_im()[0]

    @property
    def imag(s):
        return s.re_im()[1]

    def _neg_lead(s):
        k = s.key()
        return bool(k) and k[0][1] < 0

    def sin(s):
        if not s.t:
            return Sym({})
        if s._neg_lead():                     # canonical sign: sin(-a) = -sin(a)
            return -opaque('sin', -s)
        return opaque('sin', s)

    def cos(s):
        if not s.t:
            return Sym.const(1)
        if s._neg_lead():                     # cos(-a) = cos(a)
            return opaque('cos', -s)
        return opaque('cos', s)

    def exp(s):
        if not s.t:
            return Sym.const(1)
        return opaque('exp', s)

    def log(s):
        return opaque('log', s)

    def __float__(s):
        if s.is_const():
            return float(s.cval())
        raise TypeError('float() of a symbolic value: %r' % (s,))

    def __int__(s):
        if s.is_const() and s.cval().denominator == 1:
            return int(s.cval())
        raise TypeError('int() of a symbolic value')

    def __complex__(s):
        re, im = s.re_im()
        if re.is_const() and im.is_const():
            return complex(float(re.cval()), float(im.cval()))
        raise TypeError('complex() of a symbolic value')

    def __index__(s):
        if s.is_const() and s.cval().denominator == 1:
            return int(s.cval())
        raise TypeError('symbolic value used as index')

    def __round__(s, n=None):
        if s.is_const():
            return round(float(s.cval()), n)
        raise TypeError('round() of symbolic')

    # ------------------------------------------------------------------ comparisons
    def _cmp(s, o, op):
        if isinstance(o, (float, _np.floating)) and (o == float('inf') or o == float('-inf')):
            pos = o > 0          # a symbolic value is a finite real
            return {'<': pos, '<=': pos, '>': not pos, '>=': not pos, '==': False, '!=': True}[op]
        if isinstance(o, (float, _np.floating)) and o != o:
            return op == '!='
        o = Sym.lift(o)
        if o is None:
            return NotImplemented
        from . import explore
        return explore.compare(s - o, op)

    def __lt__(s, o):
        return s._cmp(o, '<')

    def __le__(s, o):
        return s._cmp(o, '<=')

    def __gt__(s, o):
        return s._cmp(o, '>')

    def __ge__(s, o):
        return s._cmp(o, '>=')

    def __eq__(s, o):
        r = s._cmp(o, '==')
        return False if r is NotImplemented else r

    def __ne__(s, o):
        r = s._cmp(o, '!=')
        return True if r is NotImplemented else r

    def __bool__(s):
        r = s._cmp(0, '!=')
        return bool(r)

    # ------------------------------------------------------------------ calculus / evaluation
    def diff(s, v):
        """d/dv, v an input variable (Sym or atom index); chain rule through atoms."""
        if isinstance(v, Sym):
            (m, _), = v.t.items()
            (v, _), = m
        out = Sym({})
        for m, c in s.t.items():
            for i, e in m:
                da = _datom(i, v)
                if not da.t:
                    continue
                md = dict(m)
                if e == 1:
                    del md[i]
                else:
                    md[i] = e - 1
                rest = Sym({tuple(sorted(md.items())): c * e})
                out = out + _mul(rest, da)
        return out

    def subs(s, mapping):
        """Substitute atoms (by index) with Syms/numbers; defs of derived atoms are rebuilt."""
        memo = {}

        def atom_val(i):
            if i in memo:
                return memo[i]
            if i in mapping:
                r = Sym.lift(mapping[i])
            else:
                k = W.kind[i]
                if k in ('var', 'imag'):
                    r = W.atom(i)
                elif k == 'sqrt':
                    r = sub(W.defn[i]).sqrt()
                elif k == 'inv':
                    r = sub(W.defn[i]).inv()
                else:
                    fname, args = W.defn[i]
                    if fname == 'sin':
                        r = sub(args[0]).sin()
                    elif fname == 'cos':
                        r = sub(args[0]).cos()
                    else:
                        r = opaque(fname, *[sub(a) for a in args])
            memo[i] = r
            return r

        def sub(p):
            out = Sym({})
            for m, c in p.t.items():
                term = Sym.const(c)
                for i, e in m:
                    term = _mul(term, atom_val(i) ** e)
                out = out + term
            return out

        return sub(s)

    def evalf(s, env, _memo=None):
        """Numerical evaluation; env maps atom index or var name -> number (python complex ok)."""
        memo = {} if _memo is None else _memo

        def atom_val(i):
            if i in memo:
                return memo[i]
            k = W.kind[i]
            if k == 'var':
                v = env[i] if i in env else env[W.names[i]]
            elif k == 'imag':
                v = 1j
            elif k == 'sqrt':
                x = W.defn[i].evalf(env, memo)
                v = x ** 0.5 if (isinstance(x, complex) or x >= 0) else float('nan')
            elif k == 'inv':
                v = 1 / W.defn[i].evalf(env, memo)
            else:
                fname, args = W.defn[i]
                av = [a.evalf(env, memo) for a in args]
                fn = env.get('fn:' + fname) if isinstance(env, dict) else None
                if fn is not None:
                    v = fn(*av)
                elif fname == 'sin':
                    v = math.sin(av[0])
                elif fname == 'cos':
                    v = math.cos(av[0])
                elif fname == 'exp':
                    v = math.exp(av[0])
                elif fname == 'log':
                    v = math.log(av[0])
                elif fname == 'pow':
                    v = av[0] ** av[1]
                else:
                    raise KeyError('no interpretation for %s' % fname)
            memo[i] = v
            return v

        tot = 0
        for m, c in s.t.items():
            term = c.numerator / c.denominator if not isinstance(c, int) else c
            for i, e in m:
                term = term * atom_val(i) ** e
            tot = tot + term
        return tot

    def evalq(s, env, _memo=None):
        """Exact rational evaluation (only var/inv/imag-free sqrt-free terms); env: atom->Fraction."""
        memo = {} if _memo is None else _memo

        def atom_val(i):
            if i in memo:
                return memo[i]
            k = W.kind[i]
            if k == 'var':
                v = Fraction(env[i] if i in env else env[W.names[i]])
            elif k == 'inv':
                v = 1 / W.defn[i].evalq(env, memo)
            elif k == 'sqrt':
                x = W.defn[i].evalq(env, memo)
                n, d = math.isqrt(x.numerator), math.isqrt(x.denominator)
                if x < 0 or n * n != x.numerator or d * d != x.denominator:
                    raise ValueError('irrational sqrt in exact evaluation')
                v = Fraction(n, d)
            else:
                raise ValueError('cannot evaluate atom kind %s exactly' % k)
            memo[i] = v
            return v

        tot = Fraction(0)
        for m, c in s.t.items():
            term = c
            for i, e in m:
                term = term * atom_val(i) ** e
            tot += term
        return tot

    def max_abs_coeff(s):
        return max((abs(c) for c in s.t.values()), default=Fraction(0))

    def __format__(s, spec):
        return repr(s)

    def __repr__(s):
        if not s.t:
            return '0'
        parts = []
        for m, c in sorted(s.t.items()):
            mono = '*'.join(('%s^%d' % (W.names[i], e)) if e != 1 else W.names[i] for i, e in m)
            cs = str(c)
            if not mono:
                parts.append(cs)
            elif c == 1:
                parts.append(mono)
            else:
                parts.append('%s*%s' % (cs, mono))
        r = ' + '.join(parts)
        return r if len(r) < 400 else r[:400] + '...(%d terms)' % len(s.t)


def _atom_inv(i):
    base = W.atom(i)
    kk = base.key()
    j = W.inv_of.get(kk)
    if j is None:
        j = W._new('inv', None, base)
        W.inv_of[kk] = j
    return W.atom(j)


NILPOTENT = {}     # atom index -> largest power kept (eps^(N+1) = 0): truncated power-series arithmetic


def _rawmul(a, b):
    t = {}
    nil = NILPOTENT
    for m1, c1 in a.t.items():
        for m2, c2 in b.t.items():
            m = _mono_mul(m1, m2)
            if nil:
                drop = False
                for i, e in m:
                    if i in nil and e > nil[i]:
                        drop = True
                        break
                if drop:
                    continue
            v = t.get(m, 0) + c1 * c2
            if v:
                t[m] = v
            else:
                t.pop(m, None)
    return Sym(t)


def _needs_reduce(m, reduce_sqrt=False):
    has_inv = False
    for i, e in m:
        k = W.kind[i]
        if k == 'imag' and e >= 2:
            return True
        if k == 'inv':
            has_inv = True
        if reduce_sqrt and e >= 2 and (k == 'sqrt' or (k == 'opq' and W.defn[i][0] == 'sin')):
            return True
    if has_inv:
        md = None
        for i, e in m:
            if W.kind[i] == 'inv':
                b = W.defn[i]
                if len(b.t) == 1:
                    if md is None:
                        md = dict(m)
                    (bm, bc), = b.t.items()
                    if bm and all(md.get(j, 0) >= f for j, f in bm):
                        return True
    return False


def _reduce(p, reduce_sqrt=False):
    """Apply I^2 -> -1, u*B -> 1 (monomial B); optionally s^2 -> P and sin^2 -> 1 - cos^2."""
    if not any(_needs_reduce(m, reduce_sqrt) for m in p.t):
        return p
    changed = True
    while changed:
        changed = False
        t = {}
        for m, c in p.t.items():
            if not _needs_reduce(m, reduce_sqrt):
                v = t.get(m, 0) + c
                if v:
                    t[m] = v
                else:
                    t.pop(m, None)
                continue
            changed = True
            md = dict(m)
            q = None
            for i, e in m:
                k = W.kind[i]
                if k == 'imag' and e >= 2:
                    md[i] = e % 2
                    sign = -1 if (e // 2) % 2 else 1
                    q = Sym({tuple(sorted((j, f) for j, f in md.items() if f)): c * sign})
                    break
                if reduce_sqrt and k == 'sqrt' and e >= 2:
                    md[i] = e % 2
                    rest = Sym({tuple(sorted((j, f) for j, f in md.items() if f)): c})
                    q = _rawmul(rest, W.defn[i] ** (e // 2)) if e // 2 > 1 else _rawmul(rest, W.defn[i])
                    break
                if reduce_sqrt and k == 'opq' and e >= 2 and W.defn[i][0] == 'sin':
                    md[i] = e % 2
                    rest = Sym({tuple(sorted((j, f) for j, f in md.items() if f)): c})
                    cs = opaque('cos', *W.defn[i][1])
                    rep = Sym.const(1) - _rawmul(cs, cs)
                    rp = rep
                    for _ in range(e // 2 - 1):
                        rp = _rawmul(rp, rep)
                    q = _rawmul(rest, rp)
                    break
                if k == 'inv':
                    b = W.defn[i]
                    if len(b.t) == 1:
                        (bm, bc), = b.t.items()
                        if bm and all(md.get(j, 0) >= f for j, f in bm):
                            n = min([e] + [md[j] // f for j, f in bm])
                            md[i] -= n
                            for j, f in bm:
                                md[j] -= f * n
                            q = Sym({tuple(sorted((j, f) for j, f in md.items() if f)): c / bc ** n})
                            break
            for m2, c2 in q.t.items():
                v = t.get(m2, 0) + c2
                if v:
                    t[m2] = v
                else:
                    t.pop(m2, None)
        p = Sym(t)
    return p


def _mul(a, b):
    if not a.t or not b.t:
        return Sym({})
    if len(b.t) == 1 and () in b.t:
        c = b.t[()]
        return Sym({m: v * c for m, v in a.t.items()})
    if len(a.t) == 1 and () in a.t:
        c = a.t[()]
        return Sym({m: v * c for m, v in b.t.items()})
    return _reduce(_rawmul(a, b))


def _datom(i, v):
    k = W.kind[i]
    if k == 'var':
        return Sym.const(1) if i == v else Sym({})
    if k == 'imag':
        return Sym({})
    a = W.atom(i)
    if k == 'sqrt':
        d = W.defn[i].diff(v)
        if not d.t:
            return d
        return _mul(d, (a * 2).inv())
    if k == 'inv':
        d = W.defn[i].diff(v)
        if not d.t:
            return d
        return -_mul(_mul(a, a), d)
    fname, args = W.defn[i]
    if fname == 'sin':
        return _mul(opaque('cos', args[0]), args[0].diff(v))
    if fname == 'cos':
        return -_mul(opaque('sin', args[0]), args[0].diff(v))
    if fname == 'exp':
        return _mul(a, args[0].diff(v))
    # generic uninterpreted function: derivative atoms D_k F
    out = Sym({})
    for k_, arg in enumerate(args):
        da = arg.diff(v)
        if da.t:
            out = out + _mul(opaque('D%d_%s' % (k_, fname), *args), da)
    return out


def opaque(fname, *args):
    """Uninterpreted function application F(args) as an atom (congruent on canonical args)."""
    args = tuple(Sym.lift(a) for a in args)
    kk = (fname, tuple(a.key() for a in args))
    i = W.opq_of.get(kk)
    if i is None:
        i = W._new('opq', '%s#%d' % (fname, len(W.names)), (fname, args))
        W.opq_of[kk] = i
    return W.atom(i)


# ---------------------------------------------------------------------- normalisation for zero tests

def clear(p, even=False):
    """Multiply p by powers of the bases of all inverse atoms it contains until none remains,
    then reduce sqrt^2.  Returns (cleared, bases) with bases = list of Sym assumed non-zero.
    With even=True the multiplier is a product of even powers (sign-preserving)."""
    bases = []
    guard = 0
    while True:
        guard += 1
        if guard > 200:
            raise RuntimeError('clear(): too many rounds')
        inv_atoms = {}
        for m in p.t:
            for i, e in m:
                if W.kind[i] == 'inv':
                    if e > inv_atoms.get(i, 0):
                        inv_atoms[i] = e
        if not inv_atoms:
            break
        i = max(inv_atoms)
        e = inv_atoms[i]
        if even and e % 2:
            e += 1
        B = W.defn[i]
        bases.append(B)
        pw = {0: Sym.const(1)}
        for k in range(1, e + 1):
            pw[k] = _rawmul(pw[k - 1], B)
        t = {}
        for m, c in p.t.items():
            md = dict(m)
            k = md.pop(i, 0)
            rest = Sym({tuple(sorted(md.items())): c})
            q = _rawmul(rest, pw[e - k]) if e - k else rest
            for m2, c2 in q.t.items():
                v = t.get(m2, 0) + c2
                if v:
                    t[m2] = v
                else:
                    t.pop(m2, None)
        p = _reduce(Sym(t), reduce_sqrt=True)
    p = _reduce(p, reduce_sqrt=True)
    return p, bases


def normal(p):
    return clear(p)[0]


def is_zero_syntactic(p):
    """True if the cleared normal form is the zero polynomial (sufficient, not necessary)."""
    if not p.t:
        return True
    return not clear(p)[0].t


def sqrt(x):
    x = Sym.lift(x)
    return x.sqrt()


def is_sym(x):
    return isinstance(x, Sym)


def has_sym(a):
    if isinstance(a, Sym):
        return True
    if isinstance(a, _np.ndarray) and a.dtype == object:
        return any(isinstance(e, Sym) for e in a.flat)
    if isinstance(a, (list, tuple)):
        return any(has_sym(e) for e in a)
    return False


class HSym(Sym):
    """Hashable symbolic scalar: usable inside dict keys (constant hash; equality stays a solver decision)."""
    __slots__ = ()

    def __hash__(self):
        return 12345


class ISym(HSym):
    """Hashable symbolic scalar declared integer-valued (passes rewritten `isinstance(x, int)` guards)."""
    __slots__ = ()
    symbolic_int = True

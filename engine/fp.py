"""IEEE-754 binary64 values for comparison-only kernels (QF_FP): NaN, +-0 and infinities are part of the claim."""
from __future__ import annotations

import z3

from .explore import SymBool

F64 = z3.Float64()
RNE = z3.RNE()


def _lift(o):
    if isinstance(o, FP):
        return o.z
    if isinstance(o, (int, float)):
        return z3.FPVal(float(o), F64)
    return None


class FP:
    __slots__ = ('z',)
    __hash__ = None

    def __init__(self, z):
        self.z = z

    @staticmethod
    def var(name):
        return FP(z3.FP(name, F64))

    def _cmp(self, o, f):
        oz = _lift(o)
        if oz is None:
            return NotImplemented
        return SymBool(f(self.z, oz))

    def __lt__(self, o):
        return self._cmp(o, z3.fpLT)

    def __le__(self, o):
        return self._cmp(o, z3.fpLEQ)

    def __gt__(self, o):
        return self._cmp(o, z3.fpGT)

    def __ge__(self, o):
        return self._cmp(o, z3.fpGEQ)

    def __eq__(self, o):
        return self._cmp(o, z3.fpEQ)

    def __ne__(self, o):
        return self._cmp(o, lambda a, b: z3.Not(z3.fpEQ(a, b)))

    def _ar(self, o, f, swap=False):
        oz = _lift(o)
        if oz is None:
            return NotImplemented
        return FP(f(RNE, oz, self.z) if swap else f(RNE, self.z, oz))

    def __add__(self, o):
        return self._ar(o, z3.fpAdd)

    __radd__ = __add__

    def __sub__(self, o):
        return self._ar(o, z3.fpSub)

    def __rsub__(self, o):
        return self._ar(o, z3.fpSub, True)

    def __mul__(self, o):
        return self._ar(o, z3.fpMul)

    __rmul__ = __mul__

    def __truediv__(self, o):
        return self._ar(o, z3.fpDiv)

    def __neg__(self):
        return FP(z3.fpNeg(self.z))

    def __abs__(self):
        return FP(z3.fpAbs(self.z))

    def __repr__(self):
        return 'FP(%s)' % self.z

"""Load hiten's real source (from $HITEN_SRC or /repo/src) so that it runs on symbolic values.

* stand-in `numba` (decorators are identities, prange is a schedulable range, typed.List = list)
* meta-path import hook for `hiten.*`: reads each module from the source root, rewrites
  `import numpy as np` to the shim and routes float()/int()/complex()/bool()/abs()/min()/max()/
  round() calls through casts that are the identity on symbolic values
* numpy shim (`symnp`): forwards to numpy, except that floating/complex array constructors build
  object arrays and a handful of scalar helpers dispatch on symbolic operands
"""
from __future__ import annotations

import ast
import builtins
import hashlib
import importlib.abc
import importlib.util
import os
import sys
import types as _t

import numpy as _np

from . import sym as _sym
from .sym import Sym

SRC_ROOT = os.environ.get('HITEN_SRC', '/repo/src')
LOADED_SOURCES = {}   # module name -> (path, sha256 of source)

# =========================================================================== fake numba

_state = {'tid': 0, 'nthreads': 1, 'prange': None}


class _Sig:
    def __init__(self, name):
        self.name = name

    def __call__(self, *a, **k):
        return _Sig(self.name + '(...)')

    def __getitem__(self, item):
        return _Sig(self.name + '[]')

    def __repr__(self):
        return '<sig %s>' % self.name


def _identity_decorator(*args, **kwargs):
    if len(args) == 1 and callable(args[0]) and not kwargs and not isinstance(args[0], _Sig):
        return args[0]

    def deco(f):
        return f
    return deco


class _Types:
    def __getattr__(self, name):
        if name.startswith('__'):
            raise AttributeError(name)
        if name in ('DictType', 'ListType'):
            return lambda *a, **k: _Sig(name)
        return _Sig(name)


class TList(list):
    @classmethod
    def empty_list(cls, *a, **k):
        return cls()


class TDict(dict):
    @classmethod
    def empty(cls, *a, **k):
        return cls()


def get_thread_id():
    return _state['tid']


def get_num_threads():
    return _state['nthreads']


def set_num_threads(n):
    _state['nthreads'] = n


def prange(*a):
    h = _state['prange']
    if h is not None:
        return h(*a)
    return range(*a)


def set_prange_handler(h):
    _state['prange'] = h


def set_thread_id(t):
    _state['tid'] = t


def install_fake_numba():
    nb = _t.ModuleType('numba')
    nb.njit = _identity_decorator
    nb.jit = _identity_decorator
    nb.vectorize = _identity_decorator
    nb.prange = prange
    nb.get_thread_id = get_thread_id
    nb.get_num_threads = get_num_threads
    nb.set_num_threads = set_num_threads
    nb.types = _Types()
    nb.__version__ = '0.0-standin'
    nb.config = _t.SimpleNamespace(NUMBA_NUM_THREADS=16, DISABLE_JIT=0)
    typed = _t.ModuleType('numba.typed')
    typed.List = TList
    typed.Dict = TDict
    nb.typed = typed
    core = _t.ModuleType('numba.core')
    registry = _t.ModuleType('numba.core.registry')

    class CPUDispatcher:
        pass
    registry.CPUDispatcher = CPUDispatcher
    core.registry = registry
    nb.core = core
    errors = _t.ModuleType('numba.core.errors')

    class TypingError(Exception):
        pass
    errors.TypingError = TypingError
    errors.NumbaError = TypingError
    core.errors = errors
    for k in ('float64', 'float32', 'int64', 'int32', 'uint32', 'uint64', 'complex128', 'boolean', 'void', 'intp'):
        setattr(nb, k, _Sig(k))
    sys.modules['numba'] = nb
    sys.modules['numba.typed'] = typed
    sys.modules['numba.core'] = core
    sys.modules['numba.core.registry'] = registry
    sys.modules['numba.core.errors'] = errors
    sys.modules['numba.types'] = nb.types
    return nb


# =========================================================================== casts

def v_float(x=0.0, *a):
    if isinstance(x, Sym):
        return x
    if isinstance(x, _np.ndarray) and x.dtype == object and x.ndim == 0:
        return v_float(x.item())
    if isinstance(x, _np.ndarray) and x.dtype == object and x.size == 1:
        return v_float(x.reshape(-1)[0])
    return builtins.float(x, *a)


def v_int(x=0, *a):
    if isinstance(x, Sym):
        if x.is_const():
            c = x.cval()
            return int(c)
        raise TypeError('int() of symbolic value %r' % (x,))
    return builtins.int(x, *a)


def v_complex(*a):
    if any(isinstance(x, Sym) for x in a):
        if len(a) == 1:
            return a[0]
        return Sym.lift(a[0]) + _sym.W.I() * Sym.lift(a[1])
    return builtins.complex(*a)


def v_bool(x=False):
    return builtins.bool(x)


def v_abs(x):
    if isinstance(x, Sym):
        if x.is_const():
            return Sym.const(abs(x.cval()))
        from . import explore
        if _sym.W.imag is not None and _sym.W.imag in x.atoms():
            return abs(x)
        ex = explore.current()
        if ex is not None and getattr(ex, 'abs_by_branch', True):
            return x if x >= 0 else -x
        return abs(x)
    return builtins.abs(x)


def v_round(x, n=None):
    if isinstance(x, Sym):
        if x.is_const():
            r = builtins.round(float(x.cval()), n)
            return r
        raise TypeError('round() of symbolic value')
    return builtins.round(x) if n is None else builtins.round(x, n)


def v_isinstance(x, t):
    # a symbolic scalar declared integer-valued (class attribute symbolic_int) passes `isinstance(x, int)` guards
    if isinstance(x, Sym) and getattr(type(x), 'symbolic_int', False):
        ts = t if isinstance(t, tuple) else (t,)
        if builtins.int in ts or _np.integer in ts:
            return True
    return builtins.isinstance(x, t)


def v_id(x):
    # stand-in objects may carry a deterministic identity so that id()-keyed caches probe the same way in every re-execution
    return getattr(x, '__verif_id__', None) or builtins.id(x)


_CASTS = {'id': 'v_id', 'float': 'v_float', 'int': 'v_int', 'complex': 'v_complex', 'abs': 'v_abs', 'round': 'v_round', 'isinstance': 'v_isinstance'}


class Rewriter(ast.NodeTransformer):
    def visit_Import(self, node):
        new = []
        for a in node.names:
            if a.name == 'numpy':
                new.append(ast.alias(name='engine.symnp', asname=None))
                self._np_alias = a.asname or 'numpy'
                # `import engine.symnp` binds `engine`; emit explicit alias assignment instead
                return [ast.ImportFrom(module='engine', names=[ast.alias(name='symnp', asname=a.asname or 'numpy')], level=0)]
            new.append(a)
        node.names = new
        return node

    def visit_Call(self, node):
        self.generic_visit(node)
        if isinstance(node.func, ast.Name) and node.func.id in _CASTS and not node.keywords:
            node.func = ast.Attribute(value=ast.Name(id='__vcasts__', ctx=ast.Load()), attr=_CASTS[node.func.id], ctx=ast.Load())
        return node


class _Casts:
    v_float = staticmethod(v_float)
    v_int = staticmethod(v_int)
    v_complex = staticmethod(v_complex)
    v_abs = staticmethod(v_abs)
    v_round = staticmethod(v_round)
    v_isinstance = staticmethod(v_isinstance)
    v_id = staticmethod(v_id)


class _Loader(importlib.abc.Loader):
    def __init__(self, path):
        self.path = path

    def create_module(self, spec):
        return None

    def exec_module(self, module):
        with open(self.path, 'rb') as fh:
            raw = fh.read()
        LOADED_SOURCES[module.__name__] = (self.path, hashlib.sha256(raw).hexdigest()[:16])
        tree = ast.parse(raw.decode('utf-8'), self.path)
        tree = Rewriter().visit(tree)
        ast.fix_missing_locations(tree)
        code = compile(tree, self.path, 'exec')
        module.__dict__['__vcasts__'] = _Casts
        exec(code, module.__dict__)


class _Finder(importlib.abc.MetaPathFinder):
    def find_spec(self, fullname, path, target=None):
        if not (fullname == 'hiten' or fullname.startswith('hiten.')):
            return None
        rel = fullname.replace('.', '/')
        p = os.path.join(SRC_ROOT, rel)
        init = os.path.join(p, '__init__.py')
        if os.path.isdir(p) and os.path.exists(init):
            return importlib.util.spec_from_file_location(fullname, init, loader=_Loader(init), submodule_search_locations=[p])
        if os.path.exists(p + '.py'):
            return importlib.util.spec_from_file_location(fullname, p + '.py', loader=_Loader(p + '.py'))
        return None


_installed = [False]


def install():
    """Install stand-in numba, the numpy shim and the import hook.  Must run before `import hiten`."""
    if _installed[0]:
        return
    if 'numba' in sys.modules and getattr(sys.modules['numba'], '__version__', '') != '0.0-standin':
        for k in [k for k in sys.modules if k == 'numba' or k.startswith('numba.')]:
            del sys.modules[k]
    install_fake_numba()
    from . import symnp  # noqa: F401
    sys.meta_path.insert(0, _Finder())
    os.environ.setdefault('HITEN_VERIF', '1')
    _installed[0] = True


def source_of(obj):
    """(module, qualname, sha256 of the function's source text) for evidence."""
    import inspect
    try:
        src = inspect.getsource(obj)
    except Exception:
        src = ''
    return {'module': getattr(obj, '__module__', '?'), 'qualname': getattr(obj, '__qualname__', getattr(obj, '__name__', '?')),
            'sha': hashlib.sha256(src.encode()).hexdigest()[:12], 'lines': src.count('\n')}

"""Path explorer (re-execution DFS), SymBool, z3 translation with cleared denominators."""
from __future__ import annotations

import time
from fractions import Fraction

import z3

from .sym import Sym, W, clear, _reduce

QUERY_TIMEOUT_MS = [20000]

_Z3VARS = {}


def zvar(i):
    v = _Z3VARS.get(i)
    if v is None:
        v = z3.Real('a%d_%s' % (i, W.names[i].replace('#', '_')))
        _Z3VARS[i] = v
    return v


def reset_z3vars():
    _Z3VARS.clear()


def term_z3(p):
    """Polynomial in atom constants (no clearing)."""
    if not p.t:
        return z3.RealVal(0)
    terms = []
    for m, c in p.t.items():
        fs = []
        if c != 1 or not m:
            fs.append(z3.RealVal(str(c)) if c.denominator != 1 else z3.RealVal(c.numerator))
        for i, e in m:
            v = zvar(i)
            for _ in range(e):
                fs.append(v)
        term = fs[0]
        for f in fs[1:]:
            term = term * f
        terms.append(term)
    if len(terms) == 1:
        return terms[0]
    return z3.Sum(terms)


def side_constraints(atom_ids, free=(), congruence=False):
    """Defining constraints for derived atoms reachable from atom_ids (atoms in `free` only keep their sign).
    With congruence=True, opaque atoms of the same function symbol get the functional-consistency axiom
    args equal => values equal (Ackermann expansion over the reachable applications)."""
    out = []
    apps = {}
    seen = set()
    todo = list(atom_ids)
    while todo:
        i = todo.pop()
        if i in seen:
            continue
        seen.add(i)
        k = W.kind[i]
        if (free == 'sqrt' and k == 'sqrt') or (free != 'sqrt' and i in free):
            if k == 'sqrt':
                out.append(zvar(i) >= 0)
            continue
        if k == 'sqrt':
            R = W.defn[i]
            out.append(zvar(i) * zvar(i) == term_z3(R))
            out.append(zvar(i) >= 0)
            todo.extend(R.atoms())
        elif k == 'inv':
            B = W.defn[i]
            out.append(zvar(i) * term_z3(B) == 1)
            todo.extend(B.atoms())
        elif k == 'imag':
            raise ValueError('imaginary unit in a real comparison')
        elif k == 'opq':
            fname, args = W.defn[i]
            if fname in ('sin', 'cos'):
                from .sym import opaque
                s = opaque('sin', args[0])
                c = opaque('cos', args[0])
                (ms, _), = s.t.items()
                (mc, _), = c.t.items()
                si, ci = ms[0][0], mc[0][0]
                out.append(zvar(si) * zvar(si) + zvar(ci) * zvar(ci) == 1)
                seen.add(si)
                seen.add(ci)
            if fname == 'pow' and len(args) == 2 and args[1].is_const():
                # t = base^(p/q), base >= 0:  t^q = base^p, t >= 0
                e = args[1].cval()
                pnum, q = e.numerator, e.denominator
                if 0 < q <= 6 and 0 < pnum <= 6:
                    t = zvar(i)
                    b = term_z3(args[0])
                    lhs = t
                    for _ in range(q - 1):
                        lhs = lhs * t
                    rhs = b
                    for _ in range(pnum - 1):
                        rhs = rhs * b
                    out.append(lhs == rhs)
                    out.append(t >= 0)
                    out.append(b >= 0)
            if congruence and fname not in ('sin', 'cos', 'pow'):
                apps.setdefault((fname, len(args)), []).append((i, args))
            ex = W.extra[i]
            for con in ex.get('constraints', ()):  # harness-supplied contracts on this atom
                out.append(con)
            for a in args:
                if isinstance(a, Sym):
                    todo.extend(a.atoms())
    for group in apps.values():
        for x in range(len(group)):
            for y in range(x + 1, len(group)):
                (i, ai), (j, aj) = group[x], group[y]
                eqs = [term_z3(u) == term_z3(v) for u, v in zip(ai, aj) if not (isinstance(u, Sym) and isinstance(v, Sym) and u.key() == v.key())]
                if all(isinstance(u, Sym) and isinstance(v, Sym) for u, v in zip(ai, aj)):
                    out.append(z3.Implies(z3.And(*eqs) if eqs else z3.BoolVal(True), zvar(i) == zvar(j)))
    return out


class SymBool:
    """A z3 formula plus the atoms it mentions.  Truth value is decided by the explorer."""
    __slots__ = ('z', 'atoms', 'tag', 'poly', 'op')
    __hash__ = None

    def __init__(self, z, atoms=(), tag=None, poly=None, op=None):
        self.z = z
        self.atoms = frozenset(atoms)
        self.tag = tag
        self.poly = poly      # cleared polynomial p with  z == (p op 0)  (for the interval pre-check)
        self.op = op

    def __bool__(self):
        ex = current()
        if ex is None:
            raise RuntimeError('symbolic branch outside an explorer: %s' % self.z)
        return ex.decide(self)

    def _bin(self, o, f):
        if isinstance(o, SymBool):
            return SymBool(f(self.z, o.z), self.atoms | o.atoms)
        if isinstance(o, (bool,)) or type(o).__name__ == 'bool_':
            return SymBool(f(self.z, z3.BoolVal(bool(o))), self.atoms)
        return NotImplemented

    def __and__(self, o):
        return self._bin(o, z3.And)

    __rand__ = __and__

    def __or__(self, o):
        return self._bin(o, z3.Or)

    __ror__ = __or__

    def __invert__(self):
        return SymBool(z3.Not(self.z), self.atoms)

    def __eq__(self, o):
        return self._bin(o, lambda a, b: a == b)

    def __ne__(self, o):
        return self._bin(o, lambda a, b: a != b)

    def __repr__(self):
        return 'SymBool(%s)' % (self.z,)


def Not(b):
    if isinstance(b, SymBool):
        return ~b
    return not b


def And(*bs):
    r = None
    for b in bs:
        if not isinstance(b, SymBool):
            if not b:
                return False
            continue
        r = b if r is None else (r & b)
    return True if r is None else r


def Or(*bs):
    r = None
    for b in bs:
        if not isinstance(b, SymBool):
            if b:
                return True
            continue
        r = b if r is None else (r | b)
    return False if r is None else r


def Implies(a, b):
    return Or(Not(a), b)


_OPS = {
    '<': lambda a: a < 0, '<=': lambda a: a <= 0, '>': lambda a: a > 0, '>=': lambda a: a >= 0,
    '==': lambda a: a == 0, '!=': lambda a: a != 0,
}
_PYOPS = {
    '<': lambda c: c < 0, '<=': lambda c: c <= 0, '>': lambda c: c > 0, '>=': lambda c: c >= 0,
    '==': lambda c: c == 0, '!=': lambda c: c != 0,
}


def formula(d, op):
    """z3 formula for  d (op) 0  with denominators cleared by even powers.  Returns SymBool or bool."""
    if W.imag is not None and W.imag in d.atoms():
        if op not in ('==', '!='):
            raise TypeError('ordering comparison of complex symbolic values')
        re, im = d.re_im()
        a, b = formula(re, '=='), formula(im, '==')
        r = And(a, b)
        return r if op == '==' else Not(r)
    p, bases = clear(d, even=True)
    if p.is_const():
        return _PYOPS[op](p.cval())
    ex0 = current()
    zt = None
    if ex0 is not None and ex0.abstract_basis:
        zt = ex0.abstract_term(p)
    if zt is not None:
        z_term, atoms = zt
        z = _OPS[op](z_term)
        p_for_interval = None
    else:
        z = _OPS[op](term_z3(p))
        atoms = set(p.all_atoms())
        p_for_interval = p
    extra = []
    for B in bases:
        Bc = _reduce(B, reduce_sqrt=True)
        if Bc.is_const():
            continue
        extra.append(term_z3(Bc) != 0)
        atoms |= Bc.all_atoms()
    sb = SymBool(z, atoms, poly=p_for_interval, op=op)
    # base non-zero facts are domain assumptions of the expression; attach as global assumptions
    ex = current()
    if extra and ex is not None:
        ex.add_domain(extra, atoms)
    return sb


TINY = Fraction(1, 10 ** 9)


def _magnitude_vs_tiny(d):
    """d = +-(sqrt atom) -+ tau with 0 < tau <= TINY  ->  sign s such that d = s*(|x| - tau); else None."""
    if len(d.t) != 2 or () not in d.t:
        return None
    c0 = d.t[()]
    if not (0 < abs(c0) <= TINY):
        return None
    (m, c), = [(m, c) for m, c in d.t.items() if m != ()]
    if len(m) != 1 or m[0][1] != 1 or W.kind[m[0][0]] != 'sqrt' or abs(c) != 1:
        return None
    if c > 0 and c0 < 0:
        return 1
    if c < 0 and c0 > 0:
        return -1
    return None


def compare(d, op):
    """Called by Sym comparisons: d (op) 0."""
    if d.is_const():
        return _PYOPS[op](d.cval())
    ex = current()
    if ex is not None and ex.generic_nonzero and op in ('<', '<=', '>', '>='):
        s = _magnitude_vs_tiny(d)
        if s is not None:
            # cleaning thresholds: a symbolic coefficient is generic, i.e. its magnitude exceeds the (tiny) tolerance
            ex.note_generic(d)
            positive = (s == 1)          # d = |x| - tau > 0
            return (op in ('>', '>=')) if positive else (op in ('<', '<='))
    if op in ('==', '!='):
        p = clear(d)[0]
        if not p.t:
            return op == '=='
        if p.is_const():
            return _PYOPS[op](p.cval())
        if ex is not None and ex.generic_nonzero:
            ex.note_generic(d)
            return op == '!='
    return formula(d, op)


def _rational_model(m):
    """Only models whose values are all rational are reused for cheap evaluation (algebraic numbers make eval very slow)."""
    try:
        for d in m.decls():
            v = m[d]
            if z3.is_algebraic_value(v):
                return False
    except z3.Z3Exception:
        return False
    return True


_CUR = [None]


def current():
    return _CUR[0]


class Inconclusive(Exception):
    pass


class PathAbort(BaseException):
    """Raised to abandon a path (cap reached); BaseException so hiten's `except Exception` cannot eat it."""


class Path:
    __slots__ = ('pc', 'decisions', 'value', 'exc', 'notes', 'domain', 'qids', 'nfresh')

    def __init__(self):
        self.pc = []
        self.decisions = []
        self.qids = []
        self.nfresh = 0
        self.value = None
        self.exc = None
        self.notes = []
        self.domain = []

    def conds(self):
        return [c.z for c in self.pc] + list(self.domain)

    def atoms(self):
        s = set()
        for c in self.pc:
            s |= c.atoms
        return s


class Explorer:
    def __init__(self, pre=(), max_paths=2000, max_decisions=400, generic_nonzero=False,
                 query_timeout_ms=None, time_budget_s=None):
        self.pre = []            # list of SymBool / z3 BoolRef preconditions
        self.pre_atoms = set()
        for p in pre:
            self.assume(p)
        self.max_paths = max_paths
        self.max_decisions = max_decisions
        self.generic_nonzero = generic_nonzero
        self.abs_by_branch = not generic_nonzero   # generic mode: |x| is a sqrt atom so that cleaning thresholds are recognised
        self.timeout = query_timeout_ms or QUERY_TIMEOUT_MS[0]
        self.time_budget_s = time_budget_s
        self.paths = []
        self.nq = 0
        self.nq_saved = 0
        self.solver_s = 0.0
        self.unknown = 0
        self.capped = False
        self.nondeterministic = 0
        self.prefix_q = []
        self.generic_notes = 0
        self._models = []
        self.path = None
        self._fresh = 0
        self.verdicts = {'sat': 0, 'unsat': 0, 'unknown': 0}
        self.abstract_basis = []  # [(Sym P_k, z3 Real T_k)]: sub-polynomials replaced by fresh non-negative reals
        self.abstract_atoms = set()   # atoms occurring in the basis (a comparison mentioning them must decompose)
        self.congruence = False   # functional-consistency axioms for opaque atoms (opt-in)
        self.free_atoms = set()   # derived atoms whose defining constraint is dropped (over-approximation)
        self.n_abstracted = 0
        self.n_abstract_failed = 0
        self.box = {}            # var name -> (lo, hi): declared ranges (must also be assumed); enables the interval pre-check
        self.n_interval = 0

    # ------------------------------------------------------------------ assumptions
    def assume(self, p):
        if isinstance(p, SymBool):
            self.pre.append(p.z)
            self.pre_atoms |= p.atoms
        elif isinstance(p, bool):
            if not p:
                self.pre.append(z3.BoolVal(False))
        else:
            self.pre.append(p)

    def assume_box(self, v, lo, hi):
        """Assume lo <= v <= hi for an input variable and remember the range for interval pruning."""
        (m, _), = v.t.items()
        i = m[0][0]
        self.box[i] = (Fraction(lo), Fraction(hi))
        self.pre.append(zvar(i) >= z3.RealVal(str(Fraction(lo))))
        self.pre.append(zvar(i) <= z3.RealVal(str(Fraction(hi))))

    def _atom_interval(self, i, memo):
        if i in memo:
            return memo[i]
        r = None
        k = W.kind[i]
        if k == 'var':
            r = self.box.get(i)
        elif k == 'sqrt':
            ri = self._poly_interval(W.defn[i], memo)
            if ri is not None:
                import math
                rl, rh = max(ri[0], Fraction(0)), max(ri[1], Fraction(0))
                sc = 10 ** 12
                lo = Fraction(math.isqrt(int(rl * sc)), 10 ** 6)
                hi = Fraction(math.isqrt(int(rh * sc) + 1) + 1, 10 ** 6)
                r = (lo, hi)
        memo[i] = r
        return r

    def _poly_interval(self, p, memo):
        lo = hi = Fraction(0)
        for m, c in p.t.items():
            tl = th = c
            for i, e in m:
                b = self._atom_interval(i, memo)
                if b is None:
                    return None
                al, ah = b
                cands = [al ** e, ah ** e]
                pl, ph = min(cands), max(cands)
                if e % 2 == 0 and al < 0 < ah:
                    pl = Fraction(0)
                prods = [tl * pl, tl * ph, th * pl, th * ph]
                tl, th = min(prods), max(prods)
            lo += tl
            hi += th
        return lo, hi

    def interval_decides(self, sb):
        """True/False if the comparison is decided by exact (outward-rounded) interval arithmetic over the
        declared box; else None."""
        if sb.poly is None or not self.box:
            return None
        iv = self._poly_interval(sb.poly, {})
        if iv is None:
            return None
        lo, hi = iv
        op = sb.op
        if op == '<':
            return True if hi < 0 else (False if lo >= 0 else None)
        if op == '<=':
            return True if hi <= 0 else (False if lo > 0 else None)
        if op == '>':
            return True if lo > 0 else (False if hi <= 0 else None)
        if op == '>=':
            return True if lo >= 0 else (False if hi < 0 else None)
        if op == '==':
            return False if (lo > 0 or hi < 0) else None
        if op == '!=':
            return True if (lo > 0 or hi < 0) else None
        return None

    def abstract(self, P, name, nonneg=True):
        """Replace occurrences of the polynomial P in comparisons by a fresh real (>= 0 if nonneg).  This is an
        over-approximation (the fresh real forgets how P depends on the inputs): unsat answers stay valid,
        sat answers are only candidates (they are replayed)."""
        T = z3.Real('abs_' + name)
        self.abstract_basis.append((P, T))
        self.abstract_atoms |= P.atoms()
        if nonneg:
            self.pre.append(T >= 0)
        return T

    def abstract_term(self, p):
        """Write p = sum c_k P_k + rest with rest free of abstracted atoms; returns (z3 term, atoms of rest) or None."""
        if not (p.atoms() & self.abstract_atoms):
            return None
        basis = self.abstract_basis
        K = len(basis)
        monos = set()
        for P, _ in basis:
            monos |= set(P.t)
        target = {}
        rest = {}
        for m, c in p.t.items():
            if m in monos or any(i in self.abstract_atoms for i, _ in m):
                target[m] = c
            else:
                rest[m] = c
        rows = []
        for m in set(monos) | set(target):
            rows.append([P.t.get(m, Fraction(0)) for P, _ in basis] + [target.get(m, Fraction(0))])
        # Gaussian elimination
        piv_cols = []
        r = 0
        for col in range(K):
            pr = None
            for i in range(r, len(rows)):
                if rows[i][col] != 0:
                    pr = i
                    break
            if pr is None:
                continue
            rows[r], rows[pr] = rows[pr], rows[r]
            pv = rows[r][col]
            rows[r] = [x / pv for x in rows[r]]
            for i in range(len(rows)):
                if i != r and rows[i][col] != 0:
                    f = rows[i][col]
                    rows[i] = [a - f * b for a, b in zip(rows[i], rows[r])]
            piv_cols.append(col)
            r += 1
        for i in range(r, len(rows)):
            if rows[i][K] != 0:
                self.n_abstract_failed += 1
                return None          # not in the span: leave the comparison concrete
        coeffs = [Fraction(0)] * K
        for i, col in enumerate(piv_cols):
            coeffs[col] = rows[i][K]
        restp = Sym(rest)
        # the constant monomial () may be part of basis polys; it was put in target if so; fine.
        zt = term_z3(restp)
        for c, (_, T) in zip(coeffs, basis):
            if c:
                zt = zt + z3.RealVal(str(c)) * T
        self.n_abstracted += 1
        return zt, set(restp.all_atoms())

    def add_domain(self, conds, atoms):
        if self.path is not None:
            for c in conds:
                self.path.domain.append(c)
            self.path.pc.append(SymBool(z3.BoolVal(True), atoms))

    def note_generic(self, d):
        self.generic_notes += 1

    def fresh_bool(self, name='b'):
        # numbered per execution, so that a re-execution of the same prefix meets the same boolean (checked by the determinism guard)
        p = self.path
        if p is None:
            self._fresh += 1
            return SymBool(z3.Bool('%s!g%d' % (name, self._fresh)))
        p.nfresh += 1
        return SymBool(z3.Bool('%s!%d' % (name, p.nfresh)))

    # ------------------------------------------------------------------ solver
    def check(self, conds, atoms=()):
        """Satisfiability of pre ∧ conds (+ side constraints of the atoms involved)."""
        all_atoms = set(atoms) | self.pre_atoms
        sides = side_constraints(all_atoms, self.free_atoms, self.congruence)
        s = z3.Solver()
        s.set('timeout', self.timeout)
        s.add(*self.pre)
        s.add(*conds)
        s.add(*sides)
        t0 = time.time()
        import threading
        wd = threading.Timer(self.timeout / 1000.0 + 3.0, s.ctx.interrupt)   # nlsat does not always honour the soft timeout
        wd.daemon = True
        wd.start()
        try:
            r = s.check()
        except z3.Z3Exception:
            r = z3.unknown
        finally:
            wd.cancel()
        self.solver_s += time.time() - t0
        self.nq += 1
        rs = str(r)
        self.verdicts[rs] = self.verdicts.get(rs, 0) + 1
        if rs == 'sat':
            return 'sat', s.model()
        return rs, None

    def _model_says(self, model, conds):
        try:
            for c in conds:
                v = model.eval(c, model_completion=True)
                if not z3.is_true(v):
                    return False
            return True
        except z3.Z3Exception:
            return False

    def decide(self, sb):
        p = self.path
        k = len(p.decisions)
        if k >= self.max_decisions:
            self.capped = True
            raise PathAbort('decision cap')
        iv = self.interval_decides(sb)
        if iv is not None:
            # decided for every input in the declared box: no fork, no path-condition entry needed
            self.n_interval += 1
            return iv
        if k < len(self.prefix):
            v = self.prefix[k]
            # re-execution must ask the same questions in the same order, or the forced answers are meaningless
            if k < len(self.prefix_q) and self.prefix_q[k] != sb.z.get_id():
                self.nondeterministic += 1
                self.capped = True
                raise PathAbort('nondeterministic re-execution: decision %d asks a different question than when the path was forked' % k)
        else:
            atoms = p.atoms() | sb.atoms
            pcz = p.conds()
            t_ok = f_ok = None
            # cheap: reuse a cached model that satisfies the path condition
            sides_now = None
            for mdl in reversed(self._models[-6:]):
                if self._model_says(mdl, pcz):
                    # the cached model must also respect the defining/contract constraints of atoms it has never seen
                    if sides_now is None:
                        sides_now = list(self.pre) + side_constraints(set(atoms) | self.pre_atoms, self.free_atoms, self.congruence)
                    if not self._model_says(mdl, sides_now):
                        continue
                    if z3.is_true(mdl.eval(sb.z, model_completion=True)):
                        t_ok = 'sat'
                    else:
                        f_ok = 'sat'
                    self.nq_saved += 1
                    break
            if t_ok is None:
                t_ok, m = self.check(pcz + [sb.z], atoms)
                if m is not None and _rational_model(m):
                    self._models.append(m)
            if f_ok is None:
                f_ok, m = self.check(pcz + [z3.Not(sb.z)], atoms)
                if m is not None and _rational_model(m):
                    self._models.append(m)
            if 'unknown' in (t_ok, f_ok):
                self.unknown += 1
            if t_ok == 'sat' and f_ok == 'sat':
                self.work.append((p.decisions + [False], p.qids + [sb.z.get_id()]))
                v = True
            elif t_ok == 'sat':
                v = True
            elif f_ok == 'sat':
                v = False
            elif t_ok == 'unknown' or f_ok == 'unknown':
                raise PathAbort('unknown feasibility')
            else:
                raise PathAbort('infeasible path (both sides unsat)')
        p.decisions.append(v)
        p.qids.append(sb.z.get_id())
        p.pc.append(sb if v else ~sb)
        return v

    # ------------------------------------------------------------------ driver
    def run(self, fn, catch=Exception):
        self.paths = []
        self.work = [([], [])]
        t0 = time.time()
        prev = _CUR[0]
        _CUR[0] = self
        try:
            while self.work:
                if len(self.paths) >= self.max_paths or (
                        self.time_budget_s and time.time() - t0 > self.time_budget_s):
                    self.capped = True
                    break
                self.prefix, self.prefix_q = self.work.pop()
                self.path = p = Path()
                try:
                    p.value = fn()
                except PathAbort as e:
                    p.exc = e
                    p.notes.append('aborted: %s' % e)
                    if 'infeasible' not in str(e):
                        self.capped = True
                    else:
                        continue
                except catch as e:  # outcome of the code under analysis
                    p.exc = e
                self.paths.append(p)
        finally:
            _CUR[0] = prev
            self.path = None
        return self.paths

    # ------------------------------------------------------------------ obligations
    def prove(self, path, goal, extra_assume=()):
        """Is `goal` implied on `path` (under extra assumptions)?  Returns ('unsat'|'sat'|'unknown', model)."""
        conds = (path.conds() if path is not None else [])
        atoms = set(path.atoms() if path is not None else ())
        for a in extra_assume:
            if isinstance(a, SymBool):
                conds.append(a.z)
                atoms |= a.atoms
            elif a is False:
                return 'unsat', None
        if not isinstance(goal, SymBool):
            if goal:
                return 'unsat', None
            # goal is literally False: violated iff the (assumed) path is feasible
            return self.check(conds, atoms)
        atoms |= goal.atoms
        return self.check(conds + [z3.Not(goal.z)], atoms)

    def prove_all(self, path, goals, extra_assume=()):
        """Prove a conjunction member by member (smaller NRA queries).  Returns (verdict, model, index)."""
        for k, g in enumerate(goals):
            v, m = self.prove(path, g, extra_assume)
            if v != 'unsat':
                return v, m, k
        return 'unsat', None, -1

    def stats(self):
        return {'paths': len(self.paths), 'queries': self.nq, 'queries_saved_by_model_cache': self.nq_saved,
                'solver_s': round(self.solver_s, 3), 'unknown': self.unknown, 'capped': self.capped,
                'verdicts': dict(self.verdicts), 'generic_nonzero_notes': self.generic_notes,
                'decided_by_interval_precheck': self.n_interval, 'comparisons_abstracted': self.n_abstracted,
                'abstraction_not_applicable': self.n_abstract_failed}


class activate:
    """Context manager making an explorer current without running paths (for straight-line harnesses)."""

    def __init__(self, ex):
        self.ex = ex

    def __enter__(self):
        self.prev = _CUR[0]
        _CUR[0] = self.ex
        self.ex.path = Path()
        self.ex.prefix = []
        self.ex.work = []
        return self.ex

    def __exit__(self, *a):
        _CUR[0] = self.prev
        return False


def model_to_env(model, digits=30):
    """z3 model -> {var name: Fraction} for input variables (algebraic numbers approximated)."""
    env = {}
    if model is None:
        return env
    for i, k in enumerate(W.kind):
        if k != 'var':
            continue
        v = _Z3VARS.get(i)
        if v is None:
            env[W.names[i]] = Fraction(0)   # not constrained by the query: any value works
            continue
        val = model.eval(v, model_completion=True)
        env[W.names[i]] = z3val_to_fraction(val, digits)
    return env


def z3val_to_fraction(val, digits=30):
    if z3.is_rational_value(val):
        return Fraction(val.numerator_as_long(), val.denominator_as_long())
    if z3.is_algebraic_value(val):
        a = val.approx(digits)
        return Fraction(a.numerator_as_long(), a.denominator_as_long())
    if z3.is_int_value(val):
        return Fraction(val.as_long())
    try:
        return Fraction(str(val))
    except Exception:
        return None


# ---------------------------------------------------------------------- straight-line obligations

def prove_zero(ex, residual, assume=()):
    """∀ inputs (pre ∧ assume): residual == 0 ?   Returns (verdict, model, info)."""
    residual = Sym.lift(residual)
    if W.imag is not None and W.imag in residual.atoms():
        re, im = residual.re_im()
        v1, m1, i1 = prove_zero(ex, re, assume)
        if v1 != 'unsat':
            return v1, m1, i1
        return prove_zero(ex, im, assume)
    p, bases = clear(residual)
    info = {'terms_before': len(residual.t), 'terms_after': len(p.t)}
    if not p.t:
        info['by'] = 'normal form is the zero polynomial; query `0 != 0`'
        s = z3.Solver()
        s.add(z3.RealVal(0) != 0)
        r = str(s.check())
        ex.nq += 1
        ex.verdicts[r] = ex.verdicts.get(r, 0) + 1
        return r, None, info
    conds = [term_z3(p) != 0]
    atoms = set(p.all_atoms())
    for B in bases:
        Bc = _reduce(B, reduce_sqrt=True)
        if not Bc.is_const():
            conds.append(term_z3(Bc) != 0)
            atoms |= Bc.all_atoms()
    for a in assume:
        if isinstance(a, SymBool):
            conds.append(a.z)
            atoms |= a.atoms
        elif a is False:
            return 'unsat', None, info
        elif a is not True:
            conds.append(a)
    r, m = ex.check(conds, atoms)
    info['by'] = 'z3: exists input with residual != 0'
    info['residual'] = repr(p)[:300]
    return r, m, info


def prove_small(ex, residual, eps, box, assume=()):
    """∀ inputs in box (dict var-Sym-name -> (lo, hi)): |residual| <= eps ?  The residual must be a
    polynomial in input variables only (no derived atoms)."""
    residual = Sym.lift(residual)
    p, bases = clear(residual)
    info = {'terms': len(p.t), 'eps': float(eps)}
    if not p.t:
        return 'unsat', None, info
    # interval bound first (exact rational arithmetic): sum |c| * prod max|x|^e
    bound = Fraction(0)
    okb = True
    for m, c in p.t.items():
        t = abs(c)
        for i, e in m:
            nm = W.names[i]
            if W.kind[i] != 'var' or nm not in box:
                okb = False
                break
            lo, hi = box[nm]
            t *= max(abs(Fraction(lo)), abs(Fraction(hi))) ** e
        if not okb:
            break
        bound += t
    info['max_abs_coeff'] = float(p.max_abs_coeff())
    conds = []
    for nm, (lo, hi) in box.items():
        v = W.var(nm)
        (mm, _), = v.t.items()
        zv = zvar(mm[0][0])
        conds += [zv >= z3.RealVal(str(Fraction(lo))), zv <= z3.RealVal(str(Fraction(hi)))]
    for a in assume:
        if isinstance(a, SymBool):
            conds.append(a.z)
    tz = term_z3(p)
    e = z3.RealVal(str(Fraction(eps)))
    if okb and bound <= Fraction(eps):
        # the triangle-inequality bound already implies the claim; hand z3 the linear certificate
        info['by'] = 'interval bound %.3e <= eps (certificate checked by z3 on the monomial bounds)' % float(bound)
        s = z3.Solver()
        s.add(z3.RealVal(str(bound)) > e)
        r = str(s.check())
        ex.nq += 1
        ex.verdicts[r] = ex.verdicts.get(r, 0) + 1
        return r, None, info
    r, m = ex.check(conds + [z3.Or(tz > e, tz < -e)], p.all_atoms())
    info['by'] = 'z3: exists input in box with |residual| > eps'
    return r, m, info

"""numpy shim used by hiten modules loaded through engine.loader.

Everything not named here is the real numpy attribute.  Differences:
  * floating/complex array constructors return object arrays (class OA) so that any cell can
    later hold a symbolic value; small-integer dtypes (uint32, int32, uint64) are created as
    int64 (numba's arithmetic result type for `uint32 & literal`, see DESIGN section 3);
  * elementwise maths, isclose/isfinite/…, linalg.norm dispatch on symbolic operands;
  * LAPACK-backed routines receive float arrays when every entry is concrete and otherwise
    go to a registered contract stub (or raise).
"""
from __future__ import annotations

import builtins
import cmath
import math
import sys
import types as _t

import numpy as _np

from . import sym as _sym
from .sym import Sym

_this = sys.modules[__name__]


class OA(_np.ndarray):
    """Object ndarray standing for a float64/complex128 array."""

    def __array_finalize__(self, obj):
        pass

    def astype(self, dtype, *a, **k):
        if _floatish(dtype):
            return self.copy() if k.get('copy', True) else self
        dt = _map_dtype(dtype)
        return _np.array([_to_py(x) for x in self.ravel()]).reshape(self.shape).astype(dt)

    @property
    def real(self):
        return _elementwise(lambda x: x.real if isinstance(x, (Sym, complex)) else x, self)

    @property
    def imag(self):
        return _elementwise(lambda x: x.imag if isinstance(x, (Sym, complex)) else 0.0, self)

    def conj(self):
        return _elementwise(_conj1, self)

    conjugate = conj

    def tobytes(self, *a, **k):
        return repr([_key(x) for x in self.ravel()]).encode()

    def round(self, decimals=0, out=None):
        return _elementwise(lambda x: builtins.round(_to_py(x), decimals), self)

    def __float__(self):
        if self.size == 1:
            return builtins.float(self.reshape(-1)[0])
        raise TypeError('only size-1 arrays can be converted')


def _key(x):
    if isinstance(x, Sym):
        return x.key()
    return x


def _to_py(x):
    if isinstance(x, Sym):
        if x.is_const():
            c = x.cval()
            return int(c) if c.denominator == 1 else float(c)
        raise TypeError('symbolic value where a concrete number is required: %r' % (x,))
    return x


def _conj1(x):
    if isinstance(x, Sym):
        return x.conjugate()
    if isinstance(x, (complex, _np.complexfloating)):
        return x.conjugate()
    return x


class _IntDT:
    """np.uint32 / np.int32 / np.uint64 stand-in: int64 semantics (see module docstring)."""

    def __init__(self, name):
        self.name = name
        self.real = getattr(_np, name)

    def __call__(self, x=0):
        if getattr(x, '_symbolic_int', False):
            return x
        if isinstance(x, Sym):
            x = _to_py(x)
        return _np.int64(x)

    def __getitem__(self, item):
        return self

    def __repr__(self):
        return '<shim %s as int64>' % self.name

    def __eq__(self, o):
        return o is self or o is self.real or o == _np.int64

    def __hash__(self):
        return hash(self.name)


uint32 = _IntDT('uint32')
int32 = _IntDT('int32')
uint64 = _IntDT('uint64')
uint8 = _IntDT('uint8')
int16 = _IntDT('int16')


class _FloatDTMeta(type):
    """np.float64 / np.complex128 stand-ins: usable as dtype (-> object arrays), as cast (identity on symbols),
    in isinstance checks (delegated to the real scalar type) and subscriptable (`np.complex128[::1]` in signatures)."""

    def __instancecheck__(cls, inst):
        return isinstance(inst, cls._real) or (cls._real is _np.float64 and False)

    def __subclasscheck__(cls, sub):
        try:
            return issubclass(sub, cls._real)
        except TypeError:
            return False

    def __call__(cls, x=0.0, *a, **k):
        if isinstance(x, Sym):
            return x
        if isinstance(x, _np.ndarray) and x.dtype == object:
            return x
        return cls._real(x, *a, **k)

    def __getitem__(cls, item):
        return cls

    def __eq__(cls, o):
        if o is cls or o is cls._real:
            return True
        try:
            return _np.dtype(o) == _np.dtype(cls._real)
        except TypeError:
            return False

    def __ne__(cls, o):
        return not cls.__eq__(o)

    def __hash__(cls):
        return hash(cls._real)

    def __repr__(cls):
        return '<shim %s>' % cls._real.__name__


class float64(metaclass=_FloatDTMeta):
    _real = _np.float64


class complex128(metaclass=_FloatDTMeta):
    _real = _np.complex128


class float32(metaclass=_FloatDTMeta):
    _real = _np.float32


float_ = float64
complex_ = complex128
double = float64


def _map_dtype(dtype):
    if isinstance(dtype, _IntDT):
        return _np.int64
    if isinstance(dtype, _FloatDTMeta):
        return dtype._real
    return dtype


def _floatish(dtype):
    if dtype is None:
        return True
    if isinstance(dtype, _FloatDTMeta):
        return True
    if isinstance(dtype, _IntDT):
        return False
    if dtype is object or dtype is builtins.float or dtype is builtins.complex:
        return True
    if dtype is builtins.int or dtype is builtins.bool:
        return False
    try:
        return _np.dtype(dtype).kind in 'fcO'
    except TypeError:
        return False


def _as_oa(a):
    """View/convert an ndarray as OA when it is float/complex/object."""
    if isinstance(a, OA):
        return a
    if isinstance(a, _np.ndarray):
        if a.dtype == object:
            return a.view(OA)
        if a.dtype.kind in 'fc':
            out = _np.empty(a.shape, dtype=object)
            flat = out.reshape(-1)
            src = a.reshape(-1)
            for i in range(src.size):
                flat[i] = src[i].item()
            return out.view(OA)
    return a


def _post(r):
    if isinstance(r, _np.ndarray):
        return _as_oa(r)
    if isinstance(r, tuple):
        return tuple(_post(x) for x in r)
    if isinstance(r, list):
        return [_post(x) for x in r]
    return r


def _elementwise(f, a, *rest):
    if isinstance(a, _np.ndarray):
        out = _np.empty(a.shape, dtype=object)
        of = out.reshape(-1)
        af = a.reshape(-1)
        if rest:
            bs = [_np.broadcast_to(_np.asarray(b, dtype=object) if not isinstance(b, _np.ndarray) else b, a.shape).reshape(-1) for b in rest]
            for i in range(af.size):
                of[i] = f(af[i], *[b[i] for b in bs])
        else:
            for i in range(af.size):
                of[i] = f(af[i])
        return out.view(OA)
    if isinstance(a, (list, tuple)):
        return _elementwise(f, array(a), *rest)
    if rest and any(isinstance(b, _np.ndarray) for b in rest):
        shp = _np.broadcast_shapes(*[_np.shape(b) for b in rest])
        return _elementwise(f, _np.broadcast_to(_np.asarray(a, dtype=object), shp), *rest)
    return f(a, *rest)


# ------------------------------------------------------------------------- constructors

def _shape_fill(shape, fill):
    out = _np.empty(shape, dtype=object)
    out.fill(fill)
    return out.view(OA)


def zeros(shape, dtype=None, order='C', **k):
    if _floatish(dtype):
        return _shape_fill(shape, 0.0)
    return _np.zeros(shape, dtype=_map_dtype(dtype))


def empty(shape, dtype=None, order='C', **k):
    if _floatish(dtype):
        return _shape_fill(shape, 0.0)
    return _np.zeros(shape, dtype=_map_dtype(dtype))


def ones(shape, dtype=None, order='C', **k):
    if _floatish(dtype):
        return _shape_fill(shape, 1.0)
    return _np.ones(shape, dtype=_map_dtype(dtype))


def full(shape, fill_value, dtype=None, order='C', **k):
    if dtype is None:
        if isinstance(fill_value, (Sym, float, complex, _np.floating, _np.complexfloating)):
            return _shape_fill(shape, fill_value)
        return _np.full(shape, fill_value)
    if _floatish(dtype):
        return _shape_fill(shape, fill_value if isinstance(fill_value, Sym) else _pyfloat(fill_value))
    return _np.full(shape, fill_value, dtype=_map_dtype(dtype))


def _pyfloat(v):
    if isinstance(v, (bool, int, _np.integer, _np.bool_)):
        return builtins.float(v)
    if isinstance(v, _np.floating):
        return builtins.float(v)
    if isinstance(v, _np.complexfloating):
        return builtins.complex(v)
    return v


def array(obj, dtype=None, copy=True, order='K', subok=False, ndmin=0, **k):
    if dtype is not None and not _floatish(dtype):
        if isinstance(obj, OA) or _sym.has_sym(obj):
            obj = _np.array([_to_py(x) for x in _np.asarray(obj, dtype=object).ravel()]).reshape(_np.shape(obj))
        return _np.array(obj, dtype=_map_dtype(dtype), ndmin=ndmin)
    if isinstance(obj, OA):
        r = obj.copy() if copy else obj
    else:
        try:
            r = _np.array(obj, ndmin=0) if dtype is None else _np.array(obj, dtype=object)
        except (TypeError, ValueError):
            r = _np.array(obj, dtype=object)
        if dtype is None and r.dtype.kind not in 'fcO':
            return _np.array(obj, ndmin=ndmin)   # ints / bools / strings stay what they are
        if r.dtype.kind in 'fc':
            r = _as_oa(r)
        elif dtype is not None:
            # explicit float dtype on int input: make entries floats
            flat = r.reshape(-1)
            for i in range(flat.size):
                flat[i] = _pyfloat(flat[i])
            r = r.view(OA)
        else:
            r = r.view(OA)
    if ndmin and r.ndim < ndmin:
        r = r.reshape((1,) * (ndmin - r.ndim) + r.shape)
    return r


def asarray(a, dtype=None, order=None, **k):
    if isinstance(a, OA) and _floatish(dtype):
        return a
    if isinstance(a, _np.ndarray) and not isinstance(a, OA):
        if dtype is None and a.dtype.kind not in 'fcO':
            return a
        if dtype is not None and not _floatish(dtype):
            return _np.asarray(a, dtype=_map_dtype(dtype))
        if a.dtype == object:
            return a.view(OA)
    return array(a, dtype=dtype, copy=False)


ascontiguousarray = asarray
asfortranarray = asarray
asanyarray = asarray


def _like(fn, fill):
    def f(a, dtype=None, order='K', subok=True, shape=None, **k):
        shp = _np.shape(a) if shape is None else shape
        if dtype is None:
            if isinstance(a, _np.ndarray) and a.dtype.kind not in 'fcO':
                return fn(shp, dtype=a.dtype)
            return _shape_fill(shp, fill)
        if _floatish(dtype):
            return _shape_fill(shp, fill)
        return fn(shp, dtype=_map_dtype(dtype))
    return f


zeros_like = _like(_np.zeros, 0.0)
empty_like = _like(_np.zeros, 0.0)
ones_like = _like(_np.ones, 1.0)


def full_like(a, fill_value, dtype=None, **k):
    if dtype is None and isinstance(a, _np.ndarray) and a.dtype.kind not in 'fcO':
        return _np.full_like(a, fill_value)
    if dtype is not None and not _floatish(dtype):
        return _np.full(_np.shape(a), fill_value, dtype=_map_dtype(dtype))
    return _shape_fill(_np.shape(a), fill_value)


def eye(N, M=None, k=0, dtype=None, **kw):
    r = _np.eye(N, M, k)
    if _floatish(dtype):
        return _as_oa(r)
    return r.astype(_map_dtype(dtype))


def identity(n, dtype=None, **kw):
    return eye(n, dtype=dtype)


def linspace(start, stop, num=50, endpoint=True, retstep=False, dtype=None, axis=0):
    if isinstance(start, Sym) or isinstance(stop, Sym):
        num = int(num)
        div = (num - 1) if endpoint else num
        step = (stop - start) / div if div > 0 else Sym.const(0)
        vals = [start + step * i for i in range(num)]
        if endpoint and num > 1:
            vals[-1] = stop
        r = array(vals)
        return (r, step) if retstep else r
    r = _np.linspace(_to_py_scalar(start), _to_py_scalar(stop), num, endpoint=endpoint, retstep=retstep)
    if retstep:
        return _as_oa(r[0]), r[1]
    return _as_oa(r)


def _to_py_scalar(x):
    if isinstance(x, OA) and x.size == 1:
        return _to_py(x.reshape(-1)[0])
    return x


def arange(*a, dtype=None, **k):
    a = [_to_py(x) if isinstance(x, Sym) else x for x in a]
    r = _np.arange(*a, **k)
    if dtype is not None:
        if _floatish(dtype):
            return _as_oa(r.astype(float))
        return r.astype(_map_dtype(dtype))
    return _as_oa(r) if r.dtype.kind in 'fc' else r


def fromiter(it, dtype=None, count=-1, **k):
    vals = list(it)
    return array(vals, dtype=dtype)


# ------------------------------------------------------------------------- elementwise maths

EXACT_SQRT = [False]   # harness switch: sqrt(2.0), sqrt(3) ... become exact algebraic atoms instead of doubles


def _mk1(name, symf, cf=None):
    mf = getattr(math, name, None)
    cmf = getattr(cmath, name, None)

    def one(x):
        if isinstance(x, Sym):
            if x.is_const() and name == 'sqrt':
                return x.sqrt()
            return symf(x)
        if isinstance(x, (complex, _np.complexfloating)):
            return cmf(x)
        if isinstance(x, (int, float, _np.integer, _np.floating, _np.bool_)):
            if name == 'sqrt' and EXACT_SQRT[0] and x > 0:
                q = _sym.float_to_fraction(x)
                if q.denominator <= 1000 and q.numerator <= 10 ** 6:
                    r = Sym.const(q).sqrt()
                    return r if not r.is_const() else builtins.float(r.cval())
            try:
                return mf(x)
            except ValueError:
                return builtins.float('nan')
        return getattr(_np, name)(x)

    def f(x, *a, **k):
        if isinstance(x, _np.ndarray):
            if x.dtype == object:
                return _elementwise(one, x)
            return _post(getattr(_np, name)(x, *a, **k))
        if isinstance(x, (list, tuple)):
            return f(array(x))
        return one(x)
    f.__name__ = name
    return f


sqrt = _mk1('sqrt', lambda x: x.sqrt())
sin = _mk1('sin', lambda x: x.sin())
cos = _mk1('cos', lambda x: x.cos())
exp = _mk1('exp', lambda x: x.exp())
log = _mk1('log', lambda x: x.log())


def _abs1(x):
    if isinstance(x, Sym):
        from .loader import v_abs
        return v_abs(x)
    return builtins.abs(x)


def abs(x, *a, **k):  # noqa: A001
    if isinstance(x, _np.ndarray):
        if x.dtype == object:
            return _elementwise(_abs1, x)
        return _post(_np.abs(x))
    if isinstance(x, (list, tuple)):
        return abs(array(x))
    return _abs1(x)


absolute = abs
fabs = abs


def _sign1(x):
    if isinstance(x, Sym):
        if x > 0:
            return 1.0
        if x < 0:
            return -1.0
        return 0.0
    return (x > 0) - (x < 0) + 0.0


def sign(x, *a, **k):
    if isinstance(x, _np.ndarray) and x.dtype != object:
        return _post(_np.sign(x))
    return _elementwise(_sign1, x) if isinstance(x, (_np.ndarray, list, tuple)) else _sign1(x)


def hypot(a, b):
    def one(x, y):
        if getattr(x, '_absorbing', False):
            return x
        if getattr(y, '_absorbing', False):
            return y
        if isinstance(x, Sym) or isinstance(y, Sym):
            return (Sym.lift(x) * x + Sym.lift(y) * y).sqrt()
        return math.hypot(x, y)
    if isinstance(a, _np.ndarray) or isinstance(b, _np.ndarray):
        return _elementwise(one, asarray(a), b)
    return one(a, b)


def _fin1(x):
    if isinstance(x, Sym):
        return True
    if isinstance(x, (complex, _np.complexfloating)):
        return cmath.isfinite(x)
    return math.isfinite(x)


def _boolarr(f, x):
    if isinstance(x, _np.ndarray):
        if x.dtype != object:
            return getattr(_np, f.__np_name__)(x)
        out = _np.empty(x.shape, dtype=bool)
        of = out.reshape(-1)
        xf = x.reshape(-1)
        for i in range(xf.size):
            of[i] = f(xf[i])
        return out
    if isinstance(x, (list, tuple)):
        return _boolarr(f, array(x))
    return f(x)


_fin1.__np_name__ = 'isfinite'


def isfinite(x):
    return _boolarr(_fin1, x)


def _nan1(x):
    if isinstance(x, Sym):
        return False
    if isinstance(x, (complex, _np.complexfloating)):
        return cmath.isnan(x)
    return math.isnan(x)


_nan1.__np_name__ = 'isnan'


def isnan(x):
    return _boolarr(_nan1, x)


def _inf1(x):
    if isinstance(x, Sym):
        return False
    if isinstance(x, (complex, _np.complexfloating)):
        return cmath.isinf(x)
    return math.isinf(x)


_inf1.__np_name__ = 'isinf'


def isinf(x):
    return _boolarr(_inf1, x)


def isclose(a, b, rtol=1e-05, atol=1e-08, equal_nan=False):
    def one(x, y):
        if isinstance(x, Sym) or isinstance(y, Sym) or isinstance(rtol, Sym) or isinstance(atol, Sym):
            d = _abs1(Sym.lift(x) - y)
            return builtins.bool(d <= atol + rtol * _abs1(Sym.lift(y)))
        return builtins.bool(_np.isclose(x, y, rtol=rtol, atol=atol, equal_nan=equal_nan))
    if isinstance(a, _np.ndarray) or isinstance(b, _np.ndarray) or isinstance(a, (list, tuple)) or isinstance(b, (list, tuple)):
        a = asarray(a)
        b = asarray(b)
        a, b = _np.broadcast_arrays(a, b)
        out = _np.empty(a.shape, dtype=bool)
        of = out.reshape(-1)
        af, bf = a.reshape(-1), b.reshape(-1)
        for i in range(af.size):
            of[i] = one(af[i], bf[i])
        return out
    return one(a, b)


def allclose(a, b, rtol=1e-05, atol=1e-08, equal_nan=False):
    return builtins.bool(_np.all(isclose(a, b, rtol, atol, equal_nan)))


def real(x):
    if isinstance(x, OA):
        return x.real
    if isinstance(x, Sym):
        return x.real
    if isinstance(x, _np.ndarray) and x.dtype == object:
        return x.view(OA).real
    return _post(_np.real(x))


def imag(x):
    if isinstance(x, OA):
        return x.imag
    if isinstance(x, Sym):
        return x.imag
    if isinstance(x, _np.ndarray) and x.dtype == object:
        return x.view(OA).imag
    return _post(_np.imag(x))


def conj(x):
    if isinstance(x, _np.ndarray) and x.dtype == object:
        return x.view(OA).conj()
    if isinstance(x, Sym):
        return x.conjugate()
    return _post(_np.conj(x))


conjugate = conj


def iscomplexobj(x):
    if isinstance(x, Sym):
        return _sym.W.imag is not None and _sym.W.imag in x.atoms()
    if isinstance(x, _np.ndarray) and x.dtype == object:
        return builtins.any(isinstance(e, (complex, _np.complexfloating)) or (isinstance(e, Sym) and iscomplexobj(e)) for e in x.flat)
    return _np.iscomplexobj(x)


def isreal(x):
    if isinstance(x, _np.ndarray) and x.dtype == object:
        im = x.view(OA).imag
        out = _np.empty(x.shape, dtype=bool)
        of = out.reshape(-1)
        f = im.reshape(-1)
        for i in range(f.size):
            of[i] = builtins.bool(f[i] == 0)
        return out
    if isinstance(x, Sym):
        return builtins.bool(x.imag == 0)
    return _np.isreal(x)


def round(x, decimals=0, out=None):  # noqa: A001
    if isinstance(x, _np.ndarray) and x.dtype == object:
        return _elementwise(lambda e: builtins.round(_to_py(e), decimals), x)
    if isinstance(x, Sym):
        return builtins.round(_to_py(x), decimals)
    return _post(_np.round(x, decimals))


around = round


def floor(x):
    if isinstance(x, _np.ndarray) and x.dtype == object:
        return _elementwise(lambda e: builtins.float(math.floor(_to_py(e))), x)
    if isinstance(x, Sym):
        return builtins.float(math.floor(_to_py(x)))
    return _post(_np.floor(x))


def ceil(x):
    if isinstance(x, _np.ndarray) and x.dtype == object:
        return _elementwise(lambda e: builtins.float(math.ceil(_to_py(e))), x)
    if isinstance(x, Sym):
        return builtins.float(math.ceil(_to_py(x)))
    return _post(_np.ceil(x))


def mean(a, axis=None, **k):
    a = asarray(a)
    if isinstance(a, OA):
        s = _np.sum(a, axis=axis)
        n = a.size if axis is None else a.shape[axis]
        return _post(s / n) if isinstance(s, _np.ndarray) else s / n
    return _np.mean(a, axis=axis, **k)


def isscalar(x):
    return isinstance(x, Sym) or _np.isscalar(x)


# ------------------------------------------------------------------------- linalg

LINALG_STUBS = {}   # name -> callable taking the same arguments (contract stubs set by harnesses)


def _concrete_float(a):
    a = _np.asarray(a)
    if a.dtype != object:
        return a
    flat = [_to_py(x) for x in a.reshape(-1)]
    if builtins.any(isinstance(x, (complex, _np.complexfloating)) for x in flat):
        return _np.array(flat, dtype=complex).reshape(a.shape)
    return _np.array(flat, dtype=builtins.float).reshape(a.shape)


class _Linalg:
    LinAlgError = _np.linalg.LinAlgError

    @staticmethod
    def norm(x, ord=None, axis=None, keepdims=False):
        x = asarray(x)
        if isinstance(x, OA) and _sym.has_sym(x) and axis is None and ord in (None, 2, 'fro') and (x.ndim == 1 or ord in (None, 'fro')):
            tot = Sym.const(0)
            for e in x.reshape(-1):
                if isinstance(e, Sym) and _sym.W.imag is not None and _sym.W.imag in e.atoms():
                    re, im = e.re_im()
                    tot = tot + re * re + im * im
                elif isinstance(e, (complex, _np.complexfloating)):
                    tot = tot + builtins.abs(e) ** 2
                else:
                    tot = tot + Sym.lift(e) * e
            return tot.sqrt()
        if isinstance(x, OA) and _sym.has_sym(x) and axis is None and ord == _np.inf and x.ndim == 1:
            best = None
            for e in x.reshape(-1):
                a = _abs1(e)
                if best is None or a > best:
                    best = a
            return best
        if isinstance(x, OA) and _sym.has_sym(x):
            if 'norm' in LINALG_STUBS:
                return LINALG_STUBS['norm'](x, ord, axis)
            raise NotImplementedError('symbolic linalg.norm with ord=%r axis=%r' % (ord, axis))
        r = _np.linalg.norm(_concrete_float(x), ord=ord, axis=axis, keepdims=keepdims)
        return _post(r) if isinstance(r, _np.ndarray) else builtins.float(r)

    def __getattr__(self, name):
        real = getattr(_np.linalg, name)
        if not callable(real) or isinstance(real, type):
            return real

        def f(*a, **k):
            if builtins.any(_sym.has_sym(x) for x in a):
                if name in LINALG_STUBS:
                    return LINALG_STUBS[name](*a, **k)
                raise NotImplementedError('symbolic operand for numpy.linalg.%s (no contract stub registered)' % name)
            a2 = [_concrete_float(x) if isinstance(x, _np.ndarray) else x for x in a]
            return _post(real(*a2, **k))
        f.__name__ = name
        return f


linalg = _Linalg()


def dot(a, b, out=None):
    return _post(_np.dot(asarray(a), asarray(b)))


def searchsorted(a, v, side='left', sorter=None):
    return _np.searchsorted(a, v, side=side, sorter=sorter)


# ------------------------------------------------------------------------- fallback

class _UfuncProxy:
    def __init__(self, uf):
        self._uf = uf

    def __call__(self, *a, **k):
        if 'dtype' in k:
            k['dtype'] = object if _floatish(k['dtype']) else _map_dtype(k['dtype'])
        return _post(self._uf(*a, **k))

    def __getattr__(self, n):
        return getattr(self._uf, n)


_WRAP_CACHE = {}


def _wrap(name, real):
    def f(*a, **k):
        if 'dtype' in k and k['dtype'] is not None:
            k['dtype'] = object if _floatish(k['dtype']) else _map_dtype(k['dtype'])
        return _post(real(*a, **k))
    f.__name__ = name
    f.__wrapped__ = real
    return f


def __getattr__(name):
    if name.startswith('__'):
        raise AttributeError(name)
    real = getattr(_np, name)
    if name in _WRAP_CACHE:
        return _WRAP_CACHE[name]
    r = real
    if isinstance(real, _np.ufunc):
        r = _UfuncProxy(real)
    elif isinstance(real, type) or isinstance(real, _t.ModuleType):
        r = real
    elif callable(real):
        r = _wrap(name, real)
    _WRAP_CACHE[name] = r
    return r

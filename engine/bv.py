"""64-bit bit-vector values (numba int64 semantics) for the index-packing kernels."""
from __future__ import annotations

import z3

from .explore import SymBool

W64 = 64


def _lift(o):
    if isinstance(o, BV):
        return o.z
    if isinstance(o, bool):
        return z3.BitVecVal(int(o), W64)
    if isinstance(o, int):
        return z3.BitVecVal(o, W64)
    try:
        import numpy as np
        if isinstance(o, np.integer):
            return z3.BitVecVal(int(o), W64)
    except Exception:
        pass
    return None


class BV:
    _symbolic_int = True
    __slots__ = ('z',)
    __hash__ = None

    def __init__(self, z):
        self.z = z

    @staticmethod
    def var(name):
        return BV(z3.BitVec(name, W64))

    def _b(self, o, f, swap=False):
        oz = _lift(o)
        if oz is None:
            return NotImplemented
        return BV(f(oz, self.z) if swap else f(self.z, oz))

    def __and__(self, o):
        return self._b(o, lambda a, b: a & b)

    __rand__ = __and__

    def __or__(self, o):
        return self._b(o, lambda a, b: a | b)

    __ror__ = __or__

    def __xor__(self, o):
        return self._b(o, lambda a, b: a ^ b)

    def __lshift__(self, o):
        return self._b(o, lambda a, b: a << b)

    def __rshift__(self, o):
        return self._b(o, lambda a, b: a >> b)      # arithmetic shift (signed int64)

    def __add__(self, o):
        return self._b(o, lambda a, b: a + b)

    __radd__ = __add__

    def __sub__(self, o):
        return self._b(o, lambda a, b: a - b)

    def __rsub__(self, o):
        return self._b(o, lambda a, b: a - b, True)

    def __mul__(self, o):
        return self._b(o, lambda a, b: a * b)

    __rmul__ = __mul__

    def _c(self, o, f):
        oz = _lift(o)
        if oz is None:
            return NotImplemented
        return SymBool(f(self.z, oz))

    def __lt__(self, o):
        return self._c(o, lambda a, b: a < b)

    def __le__(self, o):
        return self._c(o, lambda a, b: a <= b)

    def __gt__(self, o):
        return self._c(o, lambda a, b: a > b)

    def __ge__(self, o):
        return self._c(o, lambda a, b: a >= b)

    def __eq__(self, o):
        return self._c(o, lambda a, b: a == b)

    def __ne__(self, o):
        return self._c(o, lambda a, b: a != b)

    def __repr__(self):
        return 'BV(%s)' % self.z

"""B-series value domain: rooted trees, gamma, sigma, and a value class that can flow through the real RK kernels.

A `BS` value is a map  tree -> coefficient  (coefficients are Sym polynomials in h, theta ...; they carry the
h^{|t|} factor because the kernels multiply by h themselves).  The empty tree EMPTY stands for y0 itself.
`f_apply(Y)` is the B-series of f(Y):  coefficient of t = [t1..tm]  is  prod a(ti)   (valid when a(EMPTY) = 1).
Because the elementary differentials of a generic smooth f are linearly independent, treating them as free
symbols (i.e. comparing coefficients tree by tree) is exact, not an abstraction.
"""
from __future__ import annotations

import itertools
from fractions import Fraction

from .sym import Sym

EMPTY = 'e'
_TREES = {1: [()]}
MAX_ORDER = [8]


def trees_of_order(n):
    if n in _TREES:
        return _TREES[n]
    res = set()

    def parts(m, maxp):
        if m == 0:
            yield []
            return
        for p in range(min(m, maxp), 0, -1):
            for r in parts(m - p, p):
                yield [p] + r
    for part in parts(n - 1, n - 1):
        for combo in itertools.product(*[trees_of_order(p) for p in part]):
            res.add(tuple(sorted(combo)))
    _TREES[n] = sorted(res)
    return _TREES[n]


_ORD = {}


def order(t):
    r = _ORD.get(t)
    if r is None:
        r = 1 + sum(order(c) for c in t)
        _ORD[t] = r
    return r


_GAM = {}


def gamma(t):
    r = _GAM.get(t)
    if r is None:
        r = order(t)
        for c in t:
            r *= gamma(c)
        _GAM[t] = r
    return r


def sigma(t):
    from math import factorial
    r = 1
    for c in set(t):
        r *= factorial(t.count(c)) * sigma(c) ** t.count(c)
    return r


def tree_str(t):
    return '[' + ''.join(tree_str(c) for c in t) + ']'


class Absorb:
    """Absorbing token for quantities the B-series run does not track (|err|, norms): any arithmetic gives
    the token again, comparisons with 0 say 'positive'."""
    _absorbing = True
    __hash__ = None

    def _a(self, *a):
        return self
    __add__ = __radd__ = __sub__ = __rsub__ = __mul__ = __rmul__ = __truediv__ = __rtruediv__ = __neg__ = __abs__ = __pow__ = _a

    def __gt__(self, o):
        return True

    def __ge__(self, o):
        return True

    def __lt__(self, o):
        return False

    def __le__(self, o):
        return False

    def sqrt(self):
        return self

    def __repr__(self):
        return '<untracked>'


ABSORB = Absorb()


class BS:
    __slots__ = ('d',)
    __hash__ = None

    def __abs__(self):
        return ABSORB

    def __init__(self, d):
        self.d = {k: v for k, v in d.items() if not _iszero(v)}

    @staticmethod
    def identity():
        return BS({EMPTY: Sym.const(1)})

    def _bin(self, o, sign):
        if isinstance(o, Absorb):
            return o
        if isinstance(o, BS):
            d = dict(self.d)
            for k, v in o.d.items():
                d[k] = (d[k] + (v if sign > 0 else -v)) if k in d else (v if sign > 0 else -v)
            return BS(d)
        if isinstance(o, (int, float)) and o == 0:
            return self
        if isinstance(o, Sym) and not o.t:
            return self
        return NotImplemented

    def __add__(self, o):
        return self._bin(o, 1)

    __radd__ = __add__

    def __sub__(self, o):
        return self._bin(o, -1)

    def __rsub__(self, o):
        r = self._bin(o, -1)
        return NotImplemented if r is NotImplemented else -r

    def __neg__(self):
        return BS({k: -v for k, v in self.d.items()})

    def __mul__(self, c):
        if isinstance(c, Absorb):
            return c
        if isinstance(c, BS):
            return NotImplemented
        c = Sym.lift(c)
        if c is None:
            return NotImplemented
        if not c.t:
            return BS({})
        return BS({k: v * c for k, v in self.d.items()})

    __rmul__ = __mul__

    def __truediv__(self, c):
        c = Sym.lift(c)
        if c is None:
            return NotImplemented
        return BS({k: v / c for k, v in self.d.items()})

    def coeff(self, t):
        return self.d.get(t, Sym({}))

    def copy(self):
        return BS(dict(self.d))

    def __repr__(self):
        return 'BS(%d terms)' % len(self.d)


def _iszero(v):
    if isinstance(v, Sym):
        return not v.t
    return v == 0


def f_apply(Y, max_order=None):
    """B-series of f(Y) truncated at trees of order <= max_order."""
    P = max_order or MAX_ORDER[0]
    e = Y.d.get(EMPTY)
    if e is None or not (isinstance(e, Sym) and e.is_const() and e.cval() == 1):
        raise ValueError('f applied to a value that is not y0 + (B-series): coefficient of y0 is %r' % (e,))
    out = {}
    for n in range(1, P + 1):
        for t in trees_of_order(n):
            c = None
            ok = True
            for ch in t:
                v = Y.d.get(ch)
                if v is None:
                    ok = False
                    break
                c = v if c is None else c * v
            if ok:
                out[t] = Sym.const(1) if c is None else c
    return BS(out)


def exact_coeff(t, h):
    """Coefficient of the exact flow: h^{|t|} / gamma(t)."""
    return h ** order(t) * Fraction(1, gamma(t))

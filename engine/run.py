"""Entry point used by ./check: runs one harness; a crash of the machinery itself is reported as inconclusive (exit 4),
never as a violation (exit 1) and never as success."""
from __future__ import annotations

import importlib
import sys
import traceback


def main():
    pid = sys.argv[1]
    try:
        mod = importlib.import_module('harness.%s' % pid)
        rc = mod.main()
    except SystemExit as e:
        rc = e.code
    except BaseException as e:      # noqa: BLE001 - includes the explorer's PathAbort escaping a harness
        traceback.print_exc()
        print('INCONCLUSIVE property=%s the check machinery crashed (%s: %s); nothing is claimed by this run' % (pid, type(e).__name__, str(e)[:200]))
        sys.exit(4)
    sys.exit(rc if isinstance(rc, int) else 0)


if __name__ == '__main__':
    main()

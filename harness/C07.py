"""C07 — the polynomial Hamiltonian is the Taylor expansion of the true CR3BP Hamiltonian."""
from __future__ import annotations

import sys
import time
from fractions import Fraction

from harness.common import *  # noqa: F401,F403
from harness.common import np, Explorer, Check, Sym, W, explore, Stub, normal, prove_zero, model_to_env, fmt_env, call_property
from harness import polyref as R
import engine.symnp as snp

PID = 'C07'


def var_poly(i):
    e = [0] * 6
    e[i] = 1
    return {tuple(e): Sym.const(1)}


def const_poly(c):
    return {(0,) * 6: Sym.lift(c)}


def rho2():
    return R.padd(R.padd(R.pmul(var_poly(0), var_poly(0)), R.pmul(var_poly(1), var_poly(1))), R.pmul(var_poly(2), var_poly(2)))


def fake_service(cls, **attrs):
    """Instance of a real dynamics-service class without running its constructor (properties read the given attributes)."""
    sub = type('Fake' + cls.__name__, (cls,), {k: property(lambda self, v=v: v) for k, v in attrs.items()})
    sub.__abstractmethods__ = frozenset()
    return object.__new__(sub)


def series_identity(chk, name, blocks_list, clmo, N, lin, what):
    """(1 - 2*lin + rho^2) * S^2 == 1 (mod degree N+1) with S = sum_n blocks_list[n]: S is the degree-N Taylor polynomial of
    1/sqrt(1 - 2*lin + rho^2) (and S(0) = 1 > 0).  No differentiation is involved."""
    S = {}
    hom_ok = True
    for n in range(N + 1):
        Tn = R.from_blocks(blocks_list[n], clmo)
        hom_ok = hom_ok and all(sum(k) == n for k in Tn)
        S = R.padd(S, Tn)
    base = R.padd(R.padd(const_poly(1), R.pscale(lin, Sym.const(-2))), rho2())
    lhs = R.pmul(base, R.pmul(S, S, N), N)
    ok, key = R.same_poly(lhs, const_poly(1))
    if not ok:
        # coefficients of these series are concrete doubles produced by floating-point products: allow their rounding
        worst = Fraction(0)
        ok = True
        for k in set(lhs) | {(0,) * 6}:
            d = normal(lhs.get(k, Sym({})) - (1 if k == (0,) * 6 else 0))
            if not d.is_const():
                ok = False
                key = k
                break
            worst = max(worst, abs(d.cval()))
        if ok and worst > Fraction(1, 10 ** 12):
            ok = False
        what += ' (largest coefficient residual %.1e from double rounding)' % float(worst)
    oid = 'C07/(1)series/%s' % name
    if ok and hom_ok:
        chk.ok(oid, '%s: each term homogeneous of its degree and (1 - 2 l + rho^2) S^2 = 1 mod degree %d (%d coefficients of S)' % (what, N + 1, len(S)), sample={'series': name, 'N': N, 'terms': len(S)})
    else:
        chk.fail(oid, 'generating identity fails at monomial %s (homogeneous: %s)' % (key, hom_ok), '''
from hiten.algorithms.hamiltonian.hamiltonian import _build_T_polynomials
from hiten.algorithms.polynomial.base import _init_index_tables, _create_encode_dict_from_clmo
from hiten.algorithms.polynomial.operations import _polynomial_variable, _polynomial_evaluate
N = 6
psi, clmo = _init_index_tables(N); enc = _create_encode_dict_from_clmo(clmo)
x, y, z = [_polynomial_variable(i, N, psi, clmo, enc) for i in range(3)]
T = _build_T_polynomials(x, y, z, N, psi, clmo, enc)
pt = np.array([0.03, 0.02, -0.01, 0, 0, 0], dtype=np.complex128)
S = sum(_polynomial_evaluate(T[n], pt, clmo).real for n in range(N + 1))
exact = 1.0 / np.sqrt(1 - 2 * 0.03 + 0.03**2 + 0.02**2 + 0.01**2)
_verdict(abs(S - exact) > 1e-9, series=float(S), exact=float(exact))
''', None)
    return S


def main():
    chk = Check(PID)
    chk.default_replay = _replay_general
    snp.EXACT_SQRT[0] = True
    import hiten.algorithms.hamiltonian.hamiltonian as hh
    import hiten.algorithms.hamiltonian.transforms as tf
    import hiten.algorithms.polynomial.base as pb
    import hiten.algorithms.polynomial.operations as po
    import hiten.algorithms.dynamics.rtbp as rtbp
    import hiten.algorithms.common.energy as en
    from hiten.algorithms.types.services import libration as lib
    thorough = chk.tier == 'thorough'
    N = 8 if thorough else 6
    chk.encode(hh._build_T_polynomials, hh._build_potential_U, hh._build_kinetic_energy_terms, hh._build_rotational_terms, hh._build_physical_hamiltonian_collinear,
               hh._build_A_polynomials, hh._build_physical_hamiltonian_triangular, lib._L1DynamicsService._compute_cn, lib._L2DynamicsService._compute_cn,
               lib._L3DynamicsService._compute_cn, tf._local2synodic_collinear, tf._synodic2local_collinear, tf._local2synodic_triangular, rtbp._crtbp_accel, en.crtbp_energy)
    chk.bound(N='series and assembled Hamiltonian: degrees 2..%d (the statement asks 2..10; higher degrees are outside)' % N, parameters='mu and gamma symbolic (no relation between them is needed for (1)-(3))')
    chk.trust('a truncated series S equals 1/sqrt(Q) to degree N iff Q S^2 = 1 mod degree N+1 and S(0) > 0 (uniqueness of the power-series square root)',
              'a function whose Hessian vanishes identically is affine; the linear part of the exact local Hamiltonian vanishes at the equilibrium (C04-(1))',
              'a linear map with D^T J D = c J (c != 0) and H_loc = (H_syn o map - const)/c transports Hamilton\'s equations')
    chk.assume('0 < gamma < 1 (L1), gamma > 0 (L2, L3), 0 < mu <= 1/2; local points away from the primaries (sqrt atoms positive)', 'zero-skip guards on the generic side')
    chk.out_of_scope('size of the O(r^(N+1)) remainder', 'degrees 9, 10')
    psi, clmo = pb._init_index_tables(N)
    enc = pb._create_encode_dict_from_clmo(clmo)
    ex = Explorer(generic_nonzero=True)
    mu, gam = W.vars('mu gamma')
    X = [W.var(n) for n in 'x y z px py pz'.split()]
    t0 = time.time()
    with explore.activate(ex):
        px_, py_, pz_, ppx, ppy, ppz = [po._polynomial_variable(i, N, psi, clmo, enc) for i in range(6)]
        # ---- (1) Legendre-type series
        T = hh._build_T_polynomials(px_, py_, pz_, N, psi, clmo, enc)
        series_identity(chk, 'T_n (collinear)', T, clmo, N, var_poly(0), 'sum T_n vs 1/sqrt(1 - 2x + rho^2)')
        s3 = Sym.const(3).sqrt()
        for sgn in (1, -1):
            for nm, dx, dy in (('A_n toward the large primary, sign %+d' % sgn, Fraction(1, 2), sgn * s3 / 2), ('A_n toward the small primary, sign %+d' % sgn, Fraction(-1, 2), sgn * s3 / 2)):
                A = hh._build_A_polynomials(px_, py_, pz_, float(dx), dy, N, psi, clmo, enc)
                lin = R.padd(R.pscale(var_poly(0), Sym.lift(dx)), R.pscale(var_poly(1), Sym.lift(dy)))
                series_identity(chk, nm, A, clmo, N, lin, 'sum A_n vs 1/sqrt(1 - 2 d.x + rho^2), |d| = 1')
        chk.note('series part %.1f s' % (time.time() - t0))
        # ---- (2) assembly of the collinear Hamiltonian with symbolic c_n
        cn = {n: W.var('c%d' % n) for n in range(2, N + 1)}
        point = Stub(dynamics=Stub(cn=lambda n: cn[n]))
        H = hh._build_physical_hamiltonian_collinear(point, N)
        Href = R.from_blocks(H, clmo)
        want = R.pscale(R.padd(R.padd(R.pmul(var_poly(3), var_poly(3)), R.pmul(var_poly(4), var_poly(4))), R.pmul(var_poly(5), var_poly(5))), Sym.const(Fraction(1, 2)))
        want = R.padd(want, R.pmul(var_poly(1), var_poly(3)))
        want = R.padd(want, R.pmul(var_poly(0), var_poly(4)), -1)
        for n in range(2, N + 1):
            want = R.padd(want, R.pscale(R.from_blocks(T[n], clmo), cn[n]), -1)
        ok, key = R.same_poly(Href, want)
        (chk.ok if ok else (lambda o, d: chk.fail(o, d, None)))('C07/(2)assembly/collinear', 'poly_H = 1/2 |p|^2 + y p_x - x p_y - sum_{n=2..%d} c_n T_n with symbolic c_n (%d coefficients)%s' % (N, len(want), '' if ok else '; differs at %s' % (key,)))
        # ---- (2b) c_n formulas = geometric coefficients from the primaries' positions in the library's own local coordinates
        for pname, cls, sgn, a_off, dom in (('L1', lib._L1DynamicsService, -1, -1 + gam, 'inner'), ('L2', lib._L2DynamicsService, -1, -1 - gam, 'outer'), ('L3', lib._L3DynamicsService, 1, gam, 'far')):
            svc = fake_service(cls, gamma=gam, mu=mu)
            if not (svc.sign == sgn and normal(Sym.lift(svc.a) - a_off).t == {}):
                chk.note('%s: sign/a read from the service: sign=%r a=%r' % (pname, svc.sign, svc.a))
            pt = Stub(dynamics=Stub(gamma=gam, sign=svc.sign, a=svc.a), mu=mu)
            a1 = Sym.lift(tf._synodic2local_collinear(pt, np.array([-mu, 0, 0, 0, 0, 0]))[0])      # large primary
            a2 = Sym.lift(tf._synodic2local_collinear(pt, np.array([1 - mu, 0, 0, 0, 0, 0]))[0])   # small primary
            # |a_i|: decide the signs under the domain of gamma
            exs = Explorer()
            with explore.activate(exs):
                exs.assume(gam > 0)
                exs.assume(mu > 0)
                if pname == 'L1':
                    exs.assume(gam < 1)
                sg1 = 1 if exs.prove(None, a1 > 0)[0] == 'unsat' else (-1 if exs.prove(None, a1 < 0)[0] == 'unsat' else None)
                sg2 = 1 if exs.prove(None, a2 > 0)[0] == 'unsat' else (-1 if exs.prove(None, a2 < 0)[0] == 'unsat' else None)
            chk.absorb(exs)
            if sg1 is None or sg2 is None:
                chk.unknown('C07/(2b)cn/%s' % pname, 'could not decide the side of the primaries')
                continue
            bad = None
            for n in range(2, N + 1):
                geo = ((1 - mu) / (sg1 * a1 * a1 ** n) + mu / (sg2 * a2 * a2 ** n)) / gam ** 3
                got = Sym.lift(svc._compute_cn(n))
                if normal(got - geo).t:
                    bad = (n, got, geo)
                    break
            oid = 'C07/(2b)cn/%s' % pname
            if bad is None:
                chk.ok(oid, 'c_n(mu, gamma) = gamma^-3 [(1-mu)/(|a1| a1^n) + mu/(|a2| a2^n)] for n = 2..%d with the primaries at local x = a1 = %r, a2 = %r' % (N, a1, a2),
                       sample={'point': pname, 'a_large': repr(a1), 'a_small': repr(a2)})
            else:
                chk.fail(oid, 'c_%d differs from the coefficient of the potential expansion' % bad[0], [_replay_cn(pname), _replay_general()], None)
        # ---- (3) the exact local Hamiltonian and the coordinate map (collinear)
        for pname, cls in (('L1', lib._L1DynamicsService), ('L2', lib._L2DynamicsService), ('L3', lib._L3DynamicsService)):
            svc = fake_service(cls, gamma=gam, mu=mu)
            pt = Stub(dynamics=Stub(gamma=gam, sign=svc.sign, a=svc.a), mu=mu)
            c = np.array(X)
            syn = tf._local2synodic_collinear(pt, c)
            f = rtbp._crtbp_accel(syn, mu)
            E = Sym.lift(en.crtbp_energy(syn, mu))
            Hloc = E / gam ** 2
            grad = [Hloc.diff(v) for v in X]
            loc_dot = [grad[3], grad[4], grad[5], -grad[0], -grad[1], -grad[2]]
            syn_dot = []
            for i in range(6):
                s = Sym.const(0)
                for j in range(6):
                    dij = Sym.lift(syn[i]).diff(X[j])
                    if dij.t:
                        s = s + dij * loc_dot[j]
                syn_dot.append(s)
            names = ['dX/dt', 'dY/dt', 'dZ/dt', 'dVx/dt', 'dVy/dt', 'dVz/dt']
            badc = []
            for i in range(6):
                v, m, info = prove_zero(ex, syn_dot[i] - Sym.lift(f[i]))
                if v != 'unsat':
                    badc.append((names[i], v, m))
            oid = 'C07/(3)field-through-map/%s' % pname
            if not badc:
                chk.ok(oid, 'D(local2synodic) J grad H_loc = CR3BP field at local2synodic(c) for all local points, with H_loc = E(local2synodic(c))/gamma^2 (all 6 components)')
            else:
                env = model_to_env(badc[0][2]) if badc[0][2] is not None else {}
                chk.fail(oid, 'the Hamiltonian flow mapped through _local2synodic_collinear does not reproduce the CR3BP field: components %s differ, e.g. at %s' % (
                    [b[0] for b in badc], fmt_env(env)), [_replay_map(pname), _replay_general()], env)
            # (3b) H_loc - closed form is affine: all second derivatives vanish
            a1 = Sym.lift(tf._synodic2local_collinear(pt, np.array([-mu, 0, 0, 0, 0, 0]))[0])
            a2 = Sym.lift(tf._synodic2local_collinear(pt, np.array([1 - mu, 0, 0, 0, 0, 0]))[0])
            x, y, z, px, py, pz = X
            # distances to the primaries: the very sqrt atoms of the mapped energy, R_i = gamma * r_i with
            # r_i^2 = (x - a_i)^2 + y^2 + z^2 (polynomial identities checked right here)
            R1 = ((Sym.lift(syn[0]) + mu) ** 2 + Sym.lift(syn[1]) ** 2 + Sym.lift(syn[2]) ** 2)
            R2 = ((Sym.lift(syn[0]) - 1 + mu) ** 2 + Sym.lift(syn[1]) ** 2 + Sym.lift(syn[2]) ** 2)
            geo_ok = not normal(R1 - gam ** 2 * ((x - a1) ** 2 + y ** 2 + z ** 2)).t and not normal(R2 - gam ** 2 * ((x - a2) ** 2 + y ** 2 + z ** 2)).t
            r1 = R1.sqrt() / gam
            r2 = R2.sqrt() / gam
            closed = (px * px + py * py + pz * pz) / 2 + y * px - x * py - ((1 - mu) / r1 + mu / r2) / gam ** 3
            diff = Hloc - closed
            nb = 0
            for i in range(6):
                gi = diff.diff(X[i])
                for j in range(i, 6):
                    v, m, info = prove_zero(ex, gi.diff(X[j]))
                    if v != 'unsat':
                        nb += 1
            oid = 'C07/(3)closed-form/%s' % pname
            if not geo_ok:
                nb += 100
            if nb == 0:
                chk.ok(oid, 'E(local2synodic(c))/gamma^2 - [1/2|p|^2 + y p_x - x p_y - gamma^-3((1-mu)/r1 + mu/r2)] has identically vanishing Hessian (affine): the series of (1),(2) is the Taylor expansion of the exact local Hamiltonian from degree 2 on')
            else:
                chk.fail(oid, '%d second derivatives of (exact local Hamiltonian - closed form) do not vanish: the polynomial is not the expansion of the mapped energy' % nb, [_replay_map(pname), _replay_general()], None)
        # ---- triangular: assembly and map
        for sgn, nm in ((1, 'L4'), (-1, 'L5')):
            pt = Stub(mu=mu, dynamics=Stub(sign=sgn))
            Ht = R.from_blocks(hh._build_physical_hamiltonian_triangular(pt, N), clmo)
            c = np.array(X)
            syn = tf._local2synodic_triangular(pt, c)
            E = Sym.lift(en.crtbp_energy(syn, mu))
            f = rtbp._crtbp_accel(syn, mu)
            grad = [E.diff(v) for v in X]
            loc_dot = [grad[3], grad[4], grad[5], -grad[0], -grad[1], -grad[2]]
            badc = []
            for i in range(6):
                s = Sym.const(0)
                for j in range(6):
                    dij = Sym.lift(syn[i]).diff(X[j])
                    if dij.t:
                        s = s + dij * loc_dot[j]
                v, m, info = prove_zero(ex, s - Sym.lift(f[i]))
                if v != 'unsat':
                    badc.append(i)
            oid = 'C07/(3)field-through-map/%s' % nm
            if not badc:
                chk.ok(oid, 'D(local2synodic) J grad (E o local2synodic) = CR3BP field (all 6 components)')
            else:
                chk.fail(oid, 'the mapped Hamiltonian flow differs from the CR3BP field in components %s' % badc, [_replay_map(nm), _replay_general()], None)
            # Taylor check of the assembled triangular polynomial against the exact mapped energy, degree by degree through the series identities:
            x, y, z, px, py, pz = X
            dS = (Fraction(1, 2), sgn * s3 / 2)
            dJ = (Fraction(-1, 2), sgn * s3 / 2)
            RS = ((Sym.lift(syn[0]) + mu) ** 2 + Sym.lift(syn[1]) ** 2 + Sym.lift(syn[2]) ** 2)
            RJ = ((Sym.lift(syn[0]) - 1 + mu) ** 2 + Sym.lift(syn[1]) ** 2 + Sym.lift(syn[2]) ** 2)
            geo_ok = not normal(RS - (1 - 2 * (dS[0] * x + dS[1] * y) + x * x + y * y + z * z)).t and not normal(RJ - (1 - 2 * (dJ[0] * x + dJ[1] * y) + x * x + y * y + z * z)).t
            rS, rJ = RS.sqrt(), RJ.sqrt()
            # exact expansion about the equilibrium (X_L, Y_L) = (1/2 - mu, sgn sqrt(3)/2): linear terms X_L x + Y_L y
            closed = (px * px + py * py + pz * pz) / 2 + y * px - x * py + (Fraction(1, 2) - mu) * x + sgn * s3 / 2 * y - (1 - mu) / rS - mu / rJ
            nb = 0
            diff = E - closed
            for i in range(6):
                gi = diff.diff(X[i])
                for j in range(i, 6):
                    v, m, info = prove_zero(ex, gi.diff(X[j]))
                    if v != 'unsat':
                        nb += 1
            # assembled polynomial = kinetic + rotational + linear - (1-mu) sum A^S_n - mu sum A^J_n  (degree >= 1), constant dropped
            AS = hh._build_A_polynomials(px_, py_, pz_, 0.5, sgn * s3 / 2, N, psi, clmo, enc)
            AJ = hh._build_A_polynomials(px_, py_, pz_, -0.5, sgn * s3 / 2, N, psi, clmo, enc)
            want = R.pscale(R.padd(R.padd(R.pmul(var_poly(3), var_poly(3)), R.pmul(var_poly(4), var_poly(4))), R.pmul(var_poly(5), var_poly(5))), Sym.const(Fraction(1, 2)))
            want = R.padd(want, R.pmul(var_poly(1), var_poly(3)))
            want = R.padd(want, R.pmul(var_poly(0), var_poly(4)), -1)
            want = R.padd(want, R.pscale(var_poly(0), Fraction(1, 2) - mu))
            want = R.padd(want, R.pscale(var_poly(1), sgn * s3 / 2))
            for n in range(1, N + 1):
                want = R.padd(want, R.pscale(R.from_blocks(AS[n], clmo), 1 - mu), -1)
                want = R.padd(want, R.pscale(R.from_blocks(AJ[n], clmo), mu), -1)
            ok, key = R.same_poly(Ht, want)
            oid = 'C07/(2)assembly+closed-form/%s' % nm
            if not geo_ok:
                nb += 100
            lin = {k: v for k, v in Ht.items() if sum(k) == 1}
            lin_ok = all(not normal(v).t for v in lin.values())
            if ok and nb == 0 and lin_ok:
                chk.ok(oid, 'linear part vanishes identically (the origin is an equilibrium); assembled polynomial = kinetic + rotational + linear - (1-mu) sum A^S_n - mu sum A^J_n, and E o local2synodic minus that closed form is affine (Hessian identically 0)')
            else:
                chk.fail(oid, 'assembly ok: %s (first difference %s); linear part vanishes: %s; non-vanishing second derivatives of (mapped energy - closed form): %d' % (ok, key, lin_ok, nb), [_replay_lin(nm), _replay_general()], None)
    st = chk.absorb(ex)
    chk.note('%d generic decisions; total %.1f s' % (st['generic_nonzero_notes'], time.time() - t0))
    snp.EXACT_SQRT[0] = False
    return chk.finish()


def _replay_cn(pname):
    return '''
from hiten.system import System
from hiten.algorithms.hamiltonian.transforms import _synodic2local_collinear
bad = []
for mu in (0.0121505856, 0.2, 0.5):
    s = System.from_mu(mu); p = s.get_libration_point(%d)
    g = p.dynamics.gamma
    a1 = _synodic2local_collinear(p, np.array([-mu, 0, 0, 0, 0, 0.0]))[0]
    a2 = _synodic2local_collinear(p, np.array([1 - mu, 0, 0, 0, 0, 0.0]))[0]
    for n in range(2, 9):
        geo = ((1 - mu) / (abs(a1) * a1 ** n) + mu / (abs(a2) * a2 ** n)) / g ** 3
        if abs(p.dynamics.cn(n) - geo) > 1e-9 * max(1.0, abs(geo)): bad.append((mu, n, float(p.dynamics.cn(n)), float(geo)))
_verdict(bool(bad), mismatches=bad[:3])
''' % int(pname[1])


def _replay_lin(pname):
    idx = {'L4': 4, 'L5': 5}[pname]
    return '''
from hiten.system import System
from hiten.algorithms.hamiltonian.hamiltonian import _build_physical_hamiltonian_triangular
p = System.from_bodies("earth", "moon").get_libration_point(%d)
H = _build_physical_hamiltonian_triangular(p, 3)
_verdict(float(np.max(np.abs(H[1]))) > 1e-12, degree_1_block=[float(v.real) for v in H[1]])
''' % idx


def _replay_general():
    """General confirmation on the compiled build: at every libration point the vector field of the polynomial Hamiltonian, pushed
    through the local->synodic map, equals the CR3BP field up to the truncation error, which must shrink with the radius at the
    rate of the first omitted degree (checked for two truncation degrees, an odd and an even one)."""
    return '''
from hiten.system import System
from hiten.algorithms.hamiltonian.transforms import _local2synodic_collinear, _local2synodic_triangular
from hiten.algorithms.dynamics.rtbp import _crtbp_accel
from hiten.algorithms.polynomial.operations import _polynomial_evaluate, _polynomial_jacobian
from hiten.algorithms.polynomial.base import _create_encode_dict_from_clmo, _init_index_tables
from hiten.algorithms.hamiltonian.hamiltonian import _build_physical_hamiltonian_collinear, _build_physical_hamiltonian_triangular
bad = {}
c0 = np.array([2.0, -1.0, 1.5, 1.0, -2.0, 1.0])
for sname, s, k in [("earth-moon", System.from_bodies("earth", "moon"), k_) for k_ in (1, 2, 3, 4, 5)] + [("mu=0.3", System.from_mu(0.3), k_) for k_ in (1, 2, 3, 4, 5)]:
  if True:
    p = s.get_libration_point(k); l2s = _local2synodic_collinear if k <= 3 else _local2synodic_triangular
    for N in (5, 8):
        psi, clmo = _init_index_tables(N); enc = _create_encode_dict_from_clmo(clmo)
        polyH = _build_physical_hamiltonian_collinear(p, N) if k <= 3 else _build_physical_hamiltonian_triangular(p, N)
        jac = _polynomial_jacobian(polyH, N, psi, clmo, enc)
        errs = []
        for r in ((2e-2, 1e-2) if N == 5 else (8e-2, 4e-2)):
            c = r * c0
            g = np.array([_polynomial_evaluate(jac[i], c.astype(np.complex128), clmo).real for i in range(6)])
            cdot = np.concatenate([g[3:], -g[:3]]); h = 1e-3; D = np.zeros((6, 6))      # the map is affine: any h is exact
            for j in range(6):
                e = np.zeros(6); e[j] = h
                D[:, j] = (l2s(p, c + e) - l2s(p, c - e)) / (2 * h)
            errs.append(float(np.max(np.abs(D @ cdot - _crtbp_accel(l2s(p, c), s.mu)))))
        order = float(np.log2(errs[0] / max(errs[1], 1e-300)))
        # the field of a degree-N Hamiltonian is exact to degree N-1: the error is O(r^N)
        if errs[1] > 1e-11 and order < N - 0.7: bad["%s_L%d_degree_%d" % (sname, k, N)] = "field error %.2e -> %.2e when the radius is halved: order %.2f instead of %d" % (errs[0], errs[1], order, N)
        elif errs[1] > 1e-4: bad["%s_L%d_degree_%d" % (sname, k, N)] = "field error %.2e at the smaller radius" % errs[1]
_verdict(bool(bad), **bad)
'''


def _replay_map(pname):
    idx = {'L1': 1, 'L2': 2, 'L3': 3, 'L4': 4, 'L5': 5}[pname]
    return '''
from hiten.system import System
from hiten.algorithms.hamiltonian.transforms import _local2synodic_collinear, _local2synodic_triangular
from hiten.algorithms.dynamics.rtbp import _crtbp_accel
from hiten.algorithms.polynomial.operations import _polynomial_evaluate, _polynomial_jacobian
from hiten.algorithms.polynomial.base import _create_encode_dict_from_clmo
s = System.from_bodies("earth", "moon"); p = s.get_libration_point(%d)
N = 8
try:
    H = p.dynamics.hamiltonian(N)["physical"] if hasattr(p.dynamics, "hamiltonian") else None
except Exception:
    H = None
from hiten.algorithms.hamiltonian.hamiltonian import _build_physical_hamiltonian_collinear, _build_physical_hamiltonian_triangular
from hiten.algorithms.polynomial.base import _init_index_tables
psi, clmo = _init_index_tables(N); enc = _create_encode_dict_from_clmo(clmo)
polyH = _build_physical_hamiltonian_collinear(p, N) if %d <= 3 else _build_physical_hamiltonian_triangular(p, N)
jac = _polynomial_jacobian(polyH, N, psi, clmo, enc)
l2s = _local2synodic_collinear if %d <= 3 else _local2synodic_triangular
c = np.array([2e-3, -1e-3, 1.5e-3, 1e-3, -2e-3, 1e-3])
g = np.array([_polynomial_evaluate(jac[i], c.astype(np.complex128), clmo).real for i in range(6)])
cdot = np.concatenate([g[3:], -g[:3]])
h = 1e-7
D = np.zeros((6, 6))
for j in range(6):
    e = np.zeros(6); e[j] = h
    D[:, j] = (l2s(p, c + e) - l2s(p, c - e)) / (2 * h)
mapped = D @ cdot
field = _crtbp_accel(l2s(p, c), s.mu)
err = np.abs(mapped - field)
_verdict(np.max(err) > 1e-6, mapped=mapped.tolist(), crtbp_field=field.tolist())
''' % (idx, idx, idx)


if __name__ == '__main__':
    sys.exit(main())

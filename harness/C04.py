"""C04 — libration points are equilibria with the correct linear dynamics for every mu."""
from __future__ import annotations

import sys
import time
from fractions import Fraction

import z3

from harness.common import *  # noqa: F401,F403
from harness.common import np, Explorer, Check, Sym, W, explore, Stub, normal, prove_zero, model_to_env, fmt_env, aidx, opaque, And, Or, Not
from harness.C07 import fake_service
import engine.symnp as snp

PID = 'C04'
HALF = Fraction(1, 2)


def catalogue_mus():
    from hiten.utils.constants import Constants
    out = []
    for prim, secs in Constants.orbital_distances.items():
        for sec in secs:
            m1, m2 = float(Constants.get_mass(prim)), float(Constants.get_mass(sec))
            out.append(('%s-%s' % (prim, sec), m2 / (m1 + m2)))
    return out


def xk(pname, mu, g):
    return {'L1': 1 - mu - g, 'L2': 1 - mu + g, 'L3': -mu - g}[pname]


def reduce_mod(p, rules):
    """Remainder of polynomial p modulo univariate monic relations  atom^deg -> replacement  (a Groebner basis: leading
    terms are pure powers of different variables)."""
    p = normal(p)
    changed = True
    guard = 0
    while changed:
        guard += 1
        if guard > 400:
            raise RuntimeError('reduce_mod did not terminate')
        changed = False
        t = Sym({})
        for m, c in p.t.items():
            md = dict(m)
            hit = None
            for a, (deg, rep) in rules.items():
                if md.get(a, 0) >= deg:
                    hit = (a, deg, rep)
                    break
            if hit is None:
                t = t + Sym({m: c})
                continue
            changed = True
            a, deg, rep = hit
            md[a] -= deg
            rest = Sym({tuple(sorted((i, e) for i, e in md.items() if e)): c})
            t = t + rest * rep
        p = normal(t)
    return p


def det(M):
    n = len(M)
    if n == 1:
        return M[0][0]
    tot = Sym.const(0)
    for j in range(n):
        if not Sym.lift(M[0][j]).t:
            continue
        minor = [[M[i][k] for k in range(n) if k != j] for i in range(1, n)]
        tot = tot + (Sym.const(-1) ** j) * Sym.lift(M[0][j]) * det(minor)
    return tot


def main():
    chk = Check(PID)
    chk.default_replay = _replay_general
    snp.EXACT_SQRT[0] = True
    import hiten.algorithms.dynamics.rtbp as rtbp
    from hiten.algorithms.types.services import libration as lib
    thorough = chk.tier == 'thorough'
    chk.encode(lib._CollinearDynamicsService._dOmega_dx, lib._CollinearDynamicsService._compute_position, lib._L1DynamicsService._position_search_interval.fget,
               lib._L2DynamicsService._position_search_interval.fget, lib._L3DynamicsService._position_search_interval.fget, lib._L1DynamicsService._gamma_poly_def.fget,
               lib._L2DynamicsService._gamma_poly_def.fget, lib._L3DynamicsService._gamma_poly_def.fget, lib._CollinearDynamicsService._J_hess_H2,
               lib._CollinearDynamicsService._compute_scale_factor, lib._CollinearDynamicsService._build_normal_form, lib._TriangularDynamicsService._compute_position,
               rtbp._crtbp_accel, rtbp._jacobian_crtbp)
    chk.bound(mu='symbolic over (0, 1/2] (search brackets: [1e-9, 1/2], the range named by the property); additionally the %d catalogue ratios as concrete rationals' % len(catalogue_mus()), points='L1..L5')
    chk.assume('Brent\'s method is replaced by its contract: on an interval whose end values have opposite signs (function continuous there) it returns a root; with equal signs it returns None (as the code does)',
               'the eigen-solver contract: lambda1^2 and -omega1^2 are the two roots of the planar characteristic polynomial in lambda^2 (so lambda1^2 - omega1^2 = c2 - 2), omega2^2 = c2')
    chk.trust('a strictly monotone continuous function has at most one root (uniqueness of the equilibrium in each region)', 'intermediate value theorem (existence inside a sign-changing bracket)',
              'similar matrices have the same characteristic polynomial')
    chk.out_of_scope('convergence of the Brent / bracket-expansion iterations', 'selection of modes from LAPACK output (np.unique / argmin heuristics)', 'triangular linear modes (Routh-critical mass ratio handling)')
    mu, g = W.vars('mu gamma')
    x = W.var('xx')
    ex = Explorer(query_timeout_ms=60000)
    with explore.activate(ex):
        ex.assume(mu > 0)
        ex.assume(mu <= HALF)
    t0 = time.time()

    services = {'L1': lib._L1DynamicsService, 'L2': lib._L2DynamicsService, 'L3': lib._L3DynamicsService}
    # ------------------------------------------------------------------ (1) equilibrium <=> quintic, (2) monotonicity
    for pname, cls in services.items():
        svc = fake_service(cls, mu=mu, gamma=g)
        coeffs, (glo, ghi) = svc._gamma_poly_def
        quint = sum((Sym.lift(c) * g ** (len(coeffs) - 1 - i) for i, c in enumerate(coeffs)), Sym.const(0))
        xs = xk(pname, mu, g)
        with explore.activate(ex):
            dom = [g > glo, g < ghi] + ([g < 1] if pname == 'L1' else [])
            f = rtbp._crtbp_accel(np.array([xs, 0, 0, 0, 0, 0]), mu)
        # all six field components vanish iff the quintic vanishes (cleared denominators, sign-aware)
        oid = 'C04/(1)equilibrium/%s' % pname
        probs = []
        for i in (0, 1, 2, 4, 5):
            v, m, info = prove_zero(ex, Sym.lift(f[i]), assume=dom)
            if v != 'unsat':
                probs.append('component %d not identically zero' % i)
        with explore.activate(ex):
            v1, m1 = ex.check([c.z for c in dom] + [(quint == 0).z, (Sym.lift(f[3]) != 0).z], (quint.all_atoms() | Sym.lift(f[3]).all_atoms()))
            v2, m2 = ex.check([c.z for c in dom] + [(quint != 0).z, (Sym.lift(f[3]) == 0).z], (quint.all_atoms() | Sym.lift(f[3]).all_atoms()))
        if v1 != 'unsat':
            probs.append('quintic root that is not an equilibrium (%s)' % v1)
        if v2 != 'unsat':
            probs.append('equilibrium that is not a quintic root (%s)' % v2)
        if not probs:
            chk.ok(oid, 'for all mu in (0,1/2] and gamma in (%s,%s): the CR3BP field vanishes at (x_%s(gamma),0,0,0,0,0) iff the quintic of the code vanishes at gamma' % (glo, ghi, pname),
                   sample={'point': pname, 'quintic': repr(quint)})
        else:
            env = model_to_env(m1 if m1 is not None else m2)
            chk.fail(oid, '; '.join(probs) + ' e.g. ' + fmt_env(env), _replay_equilibrium(pname), env)
        # dOmega/dx strictly increasing on the region of the point: at most one root
        with explore.activate(ex):
            region = {'L1': [x > -mu, x < 1 - mu], 'L2': [x > 1 - mu], 'L3': [x < -mu]}[pname]
            region_eps = {'L1': [x > -mu + Fraction(1, 10 ** 7), x < 1 - mu - Fraction(1, 10 ** 7)], 'L2': [x > 1 - mu + Fraction(1, 10 ** 7)], 'L3': [x < -mu - Fraction(1, 10 ** 7)]}[pname]
            exm = Explorer()
            for c in region_eps + [mu > 0, mu <= HALF]:
                exm.assume(c)
            with explore.activate(exm):
                dO = Sym.lift(svc._dOmega_dx(x))
                dd = dO.diff(x)
                v, m = exm.prove(None, dd > 0)
            chk.absorb(exm)
        (chk.ok if v == 'unsat' else (lambda o, d: chk.fail(o, d, None)))('C04/(2)unique/%s' % pname, 'd/dx of the code\'s dOmega/dx is > 0 on the whole region of %s: the equilibrium on that side is unique, so position and distance ratio agree' % pname)
        # dOmega/dx = x-acceleration on the axis
        with explore.activate(exm):
            fx = rtbp._crtbp_accel(np.array([x, 0, 0, 0, 0, 0]), mu)
            v, m, info = prove_zero(exm, Sym.lift(fx[3]) - dO)
        (chk.ok if v == 'unsat' else (lambda o, d: chk.fail(o, d, None)))('C04/(1)dOmega_dx=a_x/%s' % pname, 'the root function is the x-acceleration of the field on the axis')

    # ------------------------------------------------------------------ (3) brackets: every mu gets a sign-changing interval
    for pname, cls in services.items():
        root_atoms = []

        def brent(func, a, b, **kw):
            fa, fb = func(a), func(b)
            if fa == 0:
                return a
            if fb == 0:
                return b
            if fa * fb > 0:
                return None
            r = opaque('root', Sym.lift(a), Sym.lift(b))
            root_atoms.append(r)
            return r
        saved = lib.solve_bracketed_brent
        lib.solve_bracketed_brent = brent
        # the mass-ratio range named by the property (down to the smallest catalogue ratio ~2e-9), covered by adjacent closed pieces:
        # smaller boxes keep the non-linear sign queries (cube-root atoms of the Hill radius) within reach of nlsat
        cuts = [Fraction(1, 10 ** 9), Fraction(1, 10 ** 6), Fraction(1, 1000), Fraction(1, 50), Fraction(2, 25), Fraction(3, 20), Fraction(1, 4), Fraction(7, 20), HALF]
        svc = fake_service(cls, mu=mu, domain_obj=Stub())

        def go():
            return svc._compute_position(svc._position_search_interval)
        bad, npaths, nunknown, bad_ex, wrong_region = [], 0, 0, None, []
        try:
            for lo, hi in zip(cuts[:-1], cuts[1:]):
                exb = Explorer(max_paths=400, query_timeout_ms=60000)
                with explore.activate(exb):
                    exb.assume(mu >= lo)
                    exb.assume(mu <= hi)
                paths = exb.run(go)
                npaths += len(paths)
                nunknown += exb.unknown
                b = [p for p in paths if p.exc is not None and not isinstance(p.exc, explore.PathAbort)]
                if b and not bad:
                    bad, bad_ex = b, exb
                # a returned root is the wanted equilibrium only if the bracket lies inside the point's own region, away from the
                # singularities at the primaries (Brent converges to a pole as readily as to a root, and the region's root is unique by (2))
                for p in paths:
                    if p.exc is not None or wrong_region:
                        continue
                    r = Sym.lift(p.value)
                    ends = [r]
                    if len(r.t) == 1 and len(next(iter(r.t))) == 1 and W.kind[next(iter(r.t))[0][0]] == 'opq' and W.defn[next(iter(r.t))[0][0]][0] == 'root':
                        ends = list(W.defn[next(iter(r.t))[0][0]][1])
                    with explore.activate(exb):
                        goals = []
                        for e in ends:
                            goals += {'L1': [e > -mu, e < 1 - mu], 'L2': [e > 1 - mu], 'L3': [e < -mu]}[pname]
                    v, m, kk = exb.prove_all(p, goals)
                    if v != 'unsat':
                        wrong_region.append((v, model_to_env(m) if m is not None else {}, [str(e) for e in ends]))
                chk.absorb(exb)
        finally:
            lib.solve_bracketed_brent = saved
        oid = 'C04/(3)bracket/%s' % pname
        if not bad and not nunknown:
            chk.ok(oid, '%d paths over %d adjacent mu-intervals covering [1e-9, 1/2]: the primary or the fallback interval has end values of opposite sign (a root is returned on every path)' % (npaths, len(cuts) - 1),
                   sample={'point': pname, 'paths': npaths})
        elif bad:
            v, m = bad_ex.check(bad[0].conds(), bad[0].atoms())
            env = model_to_env(m) if m is not None else {}
            muv = env.get('mu')
            chk.fail(oid, 'for mu = %s neither the primary nor the fallback search interval brackets the equilibrium: %s' % (('%.3e' % float(muv)) if muv is not None else '?', str(bad[0].exc)[:160]),
                     _replay_bracket(pname, float(muv) if muv is not None else 2.3e-9), env)
        else:
            chk.unknown(oid, 'feasibility of a bracket path could not be decided')
        oid = 'C04/(3)bracket-region/%s' % pname
        if not wrong_region:
            chk.ok(oid, 'on every path the bracket handed to the root finder (and so the returned root) lies strictly inside the region of %s, with no primary inside it' % pname)
        elif wrong_region[0][0] == 'sat':
            env = wrong_region[0][1]
            muv = env.get('mu')
            chk.fail(oid, 'for mu = %s the root finder is run on %s, which is not inside the region of %s (it returns another equilibrium or a singularity)' % (
                ('%.3e' % float(muv)) if muv is not None else '?', wrong_region[0][2], pname), _replay_bracket(pname, float(muv) if muv is not None else 2.3e-9), env)
        else:
            chk.unknown(oid, 'region containment of a bracket could not be decided')
        # catalogue ratios, concretely
        failing = []
        for name, muc in catalogue_mus():
            lib.solve_bracketed_brent = brent
            try:
                exc = Explorer()
                svc_c = fake_service(cls, mu=Sym.const(Fraction(muc).limit_denominator(10 ** 18)), domain_obj=Stub())
                pc = exc.run(lambda: svc_c._compute_position(svc_c._position_search_interval))
                if any(p.exc is not None for p in pc):
                    failing.append((name, muc))
            finally:
                lib.solve_bracketed_brent = saved
            chk.absorb(exc)
        oid = 'C04/(3)bracket-catalogue/%s' % pname
        if not failing:
            chk.ok(oid, 'all %d catalogue mass ratios (smallest %.2e) get a sign-changing interval' % (len(catalogue_mus()), min(m_ for _, m_ in catalogue_mus())))
        else:
            chk.fail(oid, 'no sign-changing interval for catalogue pair(s) %s' % ', '.join('%s (mu=%.3e)' % f_ for f_ in failing[:3]), _replay_bracket(pname, failing[0][1]), {'pair': failing[0][0]})

    # ------------------------------------------------------------------ triangular points
    s3 = Sym.const(3).sqrt()
    for sgn, nm, cls in ((1, 'L4', lib._L4DynamicsService), (-1, 'L5', lib._L5DynamicsService)):
        svc = fake_service(cls, mu=mu)
        with explore.activate(ex):
            pos = svc._compute_position()
            f = rtbp._crtbp_accel(np.array([pos[0], pos[1], pos[2], 0, 0, 0]), mu)
        ok = all(prove_zero(ex, Sym.lift(c))[0] == 'unsat' for c in f)
        okp = not normal(Sym.lift(pos[0]) - (HALF - mu)).t and not normal(Sym.lift(pos[1]) - sgn * s3 / 2).t
        (chk.ok if ok and okp else (lambda o, d: chk.fail(o, d, None)))('C04/(1)equilibrium/%s' % nm, 'position (1/2 - mu, %s sqrt(3)/2, 0) and the field vanishes there identically in mu (exact sqrt 3)' % ('+' if sgn > 0 else '-'))

    # ------------------------------------------------------------------ (5) linear dynamics
    c2 = W.var('c2')
    lam = W.var('lam_')
    for pname, cls in services.items():
        svc = fake_service(cls, mu=mu, gamma=g)
        with explore.activate(ex):
            dom = [g > 0] + ([g < 1] if pname == 'L1' else [])
            F = rtbp._jacobian_crtbp(xk(pname, mu, g), Sym.const(0), Sym.const(0), mu)
            c2v = Sym.lift(svc._compute_cn(2))
            Jh = fake_service(cls, mu=mu, gamma=g, cn=lambda n, _c=c2v: _c)._J_hess_H2()
        MF = [[(lam if i == j else 0) - Sym.lift(F[i, j]) for j in range(6)] for i in range(6)]
        MJ = [[(lam if i == j else 0) - Sym.lift(Jh[i, j]) for j in range(6)] for i in range(6)]
        v, m, info = prove_zero(ex, det(MF) - det(MJ), assume=dom)
        oid = 'C04/(5)linearisation/%s' % pname
        if v == 'unsat':
            chk.ok(oid, 'characteristic polynomial of the library\'s local matrix J*Hess(H2) with c2(mu, gamma) equals that of the CR3BP Jacobian at the point, for all mu and gamma: same eigenvalues')
        else:
            env = model_to_env(m)
            chk.fail(oid, 'the local linear system does not have the eigenvalues of the linearised equations of motion, e.g. at %s' % fmt_env(env), None, env)
    with explore.activate(ex):
        Jh = fake_service(lib._L1DynamicsService, mu=mu, gamma=g, cn=lambda n: c2)._J_hess_H2()
    cp = det([[(lam if i == j else 0) - Sym.lift(Jh[i, j]) for j in range(6)] for i in range(6)])
    planar = lam ** 4 + (2 - c2) * lam ** 2 + (1 + 2 * c2) * (1 - c2)
    v, m, info = prove_zero(ex, cp - (lam ** 2 + c2) * planar)
    (chk.ok if v == 'unsat' else (lambda o, d: chk.fail(o, d, None)))('C04/(5)charpoly-factorisation', 'det(lambda - J Hess H2) = (lambda^2 + c2)(lambda^4 + (2 - c2) lambda^2 + (1 + 2 c2)(1 - c2)): vertical frequency sqrt(c2), planar pair +-lambda1, +-i omega1')

    # ------------------------------------------------------------------ (6) normal-form matrix
    l1, w1, w2 = W.vars('lambda1 omega1 omega2')
    exn = Explorer()
    with explore.activate(exn):
        for c in (l1 > 0, w1 > 0, w2 > 0, c2 > 1,
                  (l1 ** 4 + (2 - c2) * l1 ** 2 + (1 + 2 * c2) * (1 - c2)) == 0,
                  (w1 ** 4 - (2 - c2) * w1 ** 2 + (1 + 2 * c2) * (1 - c2)) == 0,
                  (w2 * w2 - c2) == 0, (l1 * l1 - w1 * w1 - c2 + 2) == 0):
            exn.assume(c)
        svc = fake_service(lib._L1DynamicsService, mu=mu, gamma=g, linear_modes=(l1, w1, w2), cn=lambda n: c2, domain_obj=Stub())
        svc_cls = type(svc)
        svc_cls.scale_factor = lambda self, a, b: lib._CollinearDynamicsService._compute_scale_factor(self, a, b)
        saved_inv = snp.LINALG_STUBS.get('inv')
        snp.LINALG_STUBS['inv'] = lambda M: np.array([[opaque('Cinv_%d_%d' % (i, j)) for j in range(6)] for i in range(6)])
        try:
            paths = exn.run(lambda: svc._build_normal_form())
        finally:
            if saved_inv is None:
                snp.LINALG_STUBS.pop('inv', None)
            else:
                snp.LINALG_STUBS['inv'] = saved_inv
    # lambda1^2 and -omega1^2 are the two roots of eta^2 + (2 - c2) eta + (1 + 2 c2)(1 - c2) (Vieta): lambda1^2 = omega1^2 + c2 - 2
    rules = {aidx(l1): (2, w1 ** 2 + c2 - 2), aidx(w1): (4, (2 - c2) * w1 ** 2 - (1 + 2 * c2) * (1 - c2)), aidx(w2): (2, c2)}
    Jm = [[0] * 6 for _ in range(6)]
    for i in range(3):
        Jm[i][3 + i] = 1
        Jm[3 + i][i] = -1
    # quadratic form of H2 in local coordinates (x, y, z, px, py, pz)
    A = [[Sym.const(0) for _ in range(6)] for _ in range(6)]
    A[0][0] = -2 * c2
    A[1][1] = c2
    A[2][2] = c2
    for i in range(3, 6):
        A[i][i] = Sym.const(1)
    A[1][3] = A[3][1] = Sym.const(1)
    A[0][4] = A[4][0] = Sym.const(-1)
    target = [[Sym.const(0) for _ in range(6)] for _ in range(6)]
    target[0][3] = target[3][0] = l1
    target[1][1] = target[4][4] = w1
    target[2][2] = target[5][5] = w2
    good_paths = [p for p in paths if p.exc is None]
    for p in paths:
        if p.exc is not None and not isinstance(p.exc, explore.PathAbort):
            chk.fail('C04/(6)normal-form/raises', 'with lambda1, omega1 roots of the planar characteristic polynomial and c2 > 1 the construction can raise: %s' % str(p.exc)[:120], None)
    if not good_paths:
        chk.fail('C04/(6)normal-form', 'the normal-form construction raises on every path: %r' % (paths[0].exc if paths else None), None)
    for n, p in enumerate(good_paths):
        C = p.value[0]
        Cs = [[Sym.lift(C[i, j]) for j in range(6)] for i in range(6)]
        nbad_s, nbad_h = 0, 0
        for i in range(6):
            for j in range(6):
                s = Sym.const(0)
                hq = Sym.const(0)
                for k in range(6):
                    for l in range(6):
                        if Cs[k][i].t and Cs[l][j].t:
                            if Jm[k][l]:
                                s = s + Cs[k][i] * Jm[k][l] * Cs[l][j]
                            if A[k][l].t:
                                hq = hq + Cs[k][i] * A[k][l] * Cs[l][j]
                from engine.sym import clear
                rs = reduce_mod(clear(s - Jm[i][j])[0], rules)
                rh = reduce_mod(clear(hq - target[i][j])[0], rules)
                if rs.t:
                    nbad_s += 1
                if rh.t:
                    nbad_h += 1
        oid = 'C04/(6)normal-form/path %d' % n
        if nbad_s == 0 and nbad_h == 0:
            chk.ok(oid, 'C^T J C = J and C^T Hess(H2) C = Hess(lambda q1 p1 + omega1/2 (q2^2+p2^2) + omega2/2 (q3^2+p3^2)) modulo the defining relations of lambda1, omega1 (roots of the planar characteristic polynomial), omega2^2 = c2 and the scale factors (72 entries)',
                   sample={'entries': 72})
        else:
            chk.fail(oid, '%d entries of C^T J C - J and %d entries of the transformed quadratic form do not reduce to zero modulo the defining relations' % (nbad_s, nbad_h), _replay_normal_form(), None)
    chk.absorb(exn)
    st = chk.absorb(ex)
    chk.note('total %.1f s' % (time.time() - t0))
    snp.EXACT_SQRT[0] = False
    return chk.finish()


def _replay_equilibrium(pname):
    return '''
from hiten.system import System
from hiten.algorithms.dynamics.rtbp import _crtbp_accel
worst = 0.0
for mu in (0.4, 0.0121505856, 3.0e-6, 1e-7):
    s = System.from_mu(mu) if hasattr(System, "from_mu") else None
    p = s.get_libration_point(%d)
    f = _crtbp_accel(np.concatenate([p.position, np.zeros(3)]), mu)
    worst = max(worst, float(np.max(np.abs(f))))
_verdict(worst > 1e-8, largest_residual_acceleration=worst)
''' % int(pname[1])


def _replay_bracket(pname, mu):
    return '''
from hiten.system import System
from hiten.algorithms.dynamics.rtbp import _crtbp_accel
mu = %r; k = %d
try:
    s = System.from_mu(mu)
    pos = np.asarray(s.get_libration_point(k).position, dtype=float)
except Exception as e:
    _verdict(True, mu=mu, raised=type(e).__name__, message=str(e)[:200])
x = float(pos[0])
acc = _crtbp_accel(np.array([x, 0.0, 0.0, 0.0, 0.0, 0.0]), mu)
in_region = {1: -mu < x < 1 - mu, 2: x > 1 - mu, 3: x < -mu}[k]
_verdict((not in_region) or abs(float(acc[3])) > 1e-8, mu=mu, x=x, in_region=bool(in_region), residual_acceleration=float(acc[3]))
''' % (mu, int(pname[1]))


def _replay_general():
    """General confirmation on the compiled build: L1..L5 over a sweep of mass ratios: the point is returned, the field vanishes
    there, it lies in its own region, gamma is its distance to the nearer primary, and the linear modes solve the characteristic equation."""
    return '''
import warnings; warnings.filterwarnings("ignore")
from hiten.system import System
from hiten.algorithms.dynamics.rtbp import _crtbp_accel, _jacobian_crtbp
bad = {}
mus = sorted(set(list(np.exp(np.linspace(np.log(2.3e-9), np.log(0.5), 24))) + [0.05 * i for i in range(1, 11)] + [1.215e-2, 3.0e-6, 9.5e-4]))
for mu in mus:
    try:
        s = System.from_mu(float(mu))
    except Exception as e:
        bad["system_mu_%.3e" % mu] = repr(e)[:80]; continue
    for k in range(1, 6):
        tag = "L%d_mu_%.3e" % (k, mu)
        try:
            p = s.get_libration_point(k); pos = np.asarray(p.position, dtype=float)
        except Exception as e:
            bad[tag] = "position not returned: %s" % repr(e)[:80]; continue
        x, y = float(pos[0]), float(pos[1])
        acc = _crtbp_accel(np.array([x, y, 0.0, 0.0, 0.0, 0.0]), float(mu))
        if float(np.max(np.abs(acc[3:]))) > 1e-8: bad[tag] = "field does not vanish: %.2e" % float(np.max(np.abs(acc[3:]))); continue
        region = {1: -mu < x < 1 - mu and y == 0, 2: x > 1 - mu and y == 0, 3: x < -mu and y == 0, 4: y > 0, 5: y < 0}[k]
        if not region: bad[tag] = "outside its region: x=%.6f y=%.6f" % (x, y); continue
        if k <= 3:
            try:
                g = float(p.dynamics.gamma) if hasattr(p.dynamics, "gamma") else float(p.gamma)
                want = {1: 1 - mu - x, 2: x - (1 - mu), 3: -mu - x}[k]
                if abs(g - want) > 1e-8 * max(1.0, abs(want)): bad[tag] = "gamma %.10f is not the distance %.10f" % (g, want); continue
                lam, om1, om2 = [complex(v) for v in p.linear_modes]
                A = np.asarray(_jacobian_crtbp(x, 0.0, 0.0, float(mu)), dtype=float)
                ev = np.linalg.eigvals(A)
                for val, nm in ((lam, "lambda"), (1j * om1, "omega1"), (1j * om2, "omega2")):
                    if float(np.min(np.abs(ev - val))) > 1e-6 * max(1.0, abs(val)): bad[tag] = "%s = %s is not an eigenvalue of the linearised field" % (nm, val); break
            except Exception as e:
                bad[tag] = "linear data failed: %s" % repr(e)[:80]
_verdict(bool(bad), **{k: bad[k] for k in list(bad)[:8]})
'''


def _replay_normal_form():
    return '''
from hiten.system import System
p = System.from_bodies("earth", "moon").get_libration_point(1)
C, Cinv = p.normal_form_transform
J = np.zeros((6, 6)); J[:3, 3:] = np.eye(3); J[3:, :3] = -np.eye(3)
err = float(np.max(np.abs(C.T @ J @ C - J)))
_verdict(err > 1e-9, symplecticity_defect=err)
'''


if __name__ == '__main__':
    sys.exit(main())

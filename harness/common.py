"""Shared helpers for harnesses."""
from __future__ import annotations

import ast
import inspect
import random
import sys
import textwrap
import types
from fractions import Fraction

sys.setrecursionlimit(20000)
import logging
logging.disable(logging.CRITICAL)

from engine import loader

loader.install()

from engine import explore, symnp  # noqa: E402
from engine.explore import Explorer, SymBool, And, Or, Not, Implies, prove_zero, prove_small, model_to_env  # noqa: E402,F401
from engine.report import Check  # noqa: E402,F401
from engine.sym import Sym, W, clear, normal, opaque, is_zero_syntactic  # noqa: E402,F401
from engine import validate  # noqa: E402,F401

np = symnp


def extract_nested(fn, name, free=None):
    """Return the function `name` defined inside `fn`'s body, compiled from fn's current source with
    the enclosing module's globals plus `free` variables."""
    src = textwrap.dedent(inspect.getsource(fn))
    tree = ast.parse(src)
    tree = loader.Rewriter().visit(tree)
    for node in ast.walk(tree):
        if isinstance(node, ast.FunctionDef) and node.name == name and node is not tree.body[0]:
            mod = ast.Module(body=[node], type_ignores=[])
            ast.fix_missing_locations(mod)
            ns = dict(fn.__globals__)
            ns.update(free or {})
            exec(compile(mod, inspect.getsourcefile(fn) or '<nested>', 'exec'), ns)
            return ns[name]
    raise LookupError('%s not found inside %s' % (name, fn.__name__))


def rng(chk, salt=0):
    return random.Random(chk.seed * 7919 + salt)


def frac(x, den=1000):
    return Fraction(int(round(x * den)), den)


def env_floats(env):
    return {k: float(v) for k, v in env.items() if v is not None}


def fmt_env(env, keys=None):
    if keys is None:
        keys = [k for k, v in env.items() if v != 0] or list(env)[:8]
    env = {k: env[k] for k in keys if k in env}
    return ', '.join('%s=%s' % (k, (str(v) if isinstance(v, Fraction) and v.denominator < 10 ** 6 else repr(float(v)))) for k, v in sorted(env.items()))


class Stub:
    """Attribute bag usable as `self` for property/method bodies of the real classes."""

    def __init__(self, **kw):
        self.__dict__.update(kw)


def call_property(cls, name, obj):
    p = inspect.getattr_static(cls, name)
    return p.fget(obj)


def symvals(path_or_none, v):
    return v


def aidx(v):
    """Atom index of an input variable."""
    (m, _), = v.t.items()
    return m[0][0]

"""C20 — cached objects always reflect their current logical state (cache clauses; persistence is outside this family)."""
from __future__ import annotations

import itertools
import sys
from fractions import Fraction

from harness.common import *  # noqa: F401,F403
from harness.common import np, Explorer, Check, Sym, W, explore, Stub, normal, model_to_env, fmt_env, opaque
from harness.drivers import same, constrain

PID = 'C20'


from engine.sym import HSym, ISym  # noqa: E402


def hvar(name):
    v = W.var(name)
    return HSym(v.t)


def eqv(a, b):
    """Structural equality with solver-decided leaves (branches in the active explorer)."""
    if isinstance(a, (tuple, list)) or isinstance(b, (tuple, list)):
        if not (isinstance(a, (tuple, list)) and isinstance(b, (tuple, list))) or len(a) != len(b):
            return False
        return all(eqv(x, y) for x, y in zip(a, b))
    if hasattr(a, 'shape') and not isinstance(a, Sym):
        return eqv(list(np.asarray(a).reshape(-1)), list(np.asarray(b).reshape(-1)))
    la, lb = (Sym.lift(a) if not isinstance(a, str) else None), (Sym.lift(b) if not isinstance(b, str) else None)
    if la is not None and lb is not None:
        return bool(la == lb)
    return a == b


def syms(v):
    return tuple(Sym.lift(x) for x in v)


# --------------------------------------------------------------------------- (a) cache keys separate distinct requests

def key_builder(chk):
    from hiten.algorithms.types.services.base import _CacheServiceBase, _DynamicsServiceBase
    chk.encode(_CacheServiceBase.make_key, _DynamicsServiceBase.make_key, _CacheServiceBase.get_or_create, _CacheServiceBase.reset)
    svc = object.__new__(type('S', (_DynamicsServiceBase,), {}))
    _DynamicsServiceBase.__init__(svc, 'DOMAIN')
    shapes = {
        'flat options (tuple of (name, value) pairs)': lambda v: {'tol': v[0], 'max_attempts': v[1], 'forward': v[2]},
        'nested options (value is itself an options dict)': lambda v: {'base': {'convergence': {'tol': v[0], 'max_attempts': v[1]}, 'integration': {'order': 8, 'steps': v[2]}}, 'forward': 1},
        'list-valued option': lambda v: {'state_indices': [v[0], v[1]], 'step': (v[2],)},
    }
    for name, build in shapes.items():
        ex = Explorer(max_paths=200)
        a = [hvar('ka%d' % i) for i in range(3)]
        b = [hvar('kb%d' % i) for i in range(3)]

        def go():
            k1 = svc.make_key('correct', tuple(sorted(build(a).items())))
            k2 = svc.make_key('correct', tuple(sorted(build(b).items())))
            return bool(k1 == k2)
        paths = ex.run(go)
        bad = None
        for p in paths:
            if p.exc is not None:
                bad = ('raised %r' % (p.exc,), None)
                break
            if p.value:
                with explore.activate(ex):
                    goals = [(a[i] - b[i]) == 0 for i in range(3)]
                v, m, k = ex.prove_all(p, goals)
                if v != 'unsat':
                    bad = ('two requests that differ in option value %d get the same cache key' % k, m)
                    break
        chk.absorb(ex)
        oid = 'C20/(a)cache-key/%s' % name.split(' (')[0]
        if bad is None:
            chk.ok(oid, '%s: equal keys imply equal option values (%d paths)' % (name, len(paths)), sample={'shape': name, 'paths': len(paths)})
        else:
            env = model_to_env(bad[1]) if bad[1] is not None else {}
            chk.fail(oid, '%s: %s, e.g. %s' % (name, bad[0], fmt_env(env)), _replay_key(), env)
    # distinct quantities never share an entry: the service-level tags used at the call sites are pairwise different
    tags = set()
    import inspect
    import re
    from hiten.algorithms.types.services import orbits as so, manifold as sm, libration as sl, center as sc
    clash = []
    for mod in (so, sm, sl, sc):
        for cname, cls in vars(mod).items():
            if not inspect.isclass(cls):
                continue
            seen = {}
            for fname, fn in vars(cls).items():
                f = fn.fget if isinstance(fn, property) else fn
                if not callable(f):
                    continue
                try:
                    src = inspect.getsource(f)
                except (OSError, TypeError):
                    continue
                for mm in re.finditer(r'self\.make_key\((.*)\)', src):
                    args = mm.group(1)
                    first = [x for x in re.findall(r'"([^"]+)"|\'([^\']+)\'', args)]
                    tag = tuple(t[0] or t[1] for t in first) or ('<no tag: %s>' % args[:30],)
                    key = (tag, args.count(','))
                    if key in seen and seen[key] != fname:
                        clash.append((cname, seen[key], fname, tag))
                    seen[key] = fname
    (chk.ok if not clash else (lambda o, d: chk.fail(o, d, None)))('C20/(a)cache-key/tags-distinct-per-service', 'no two different accessors of one service build keys with the same literal tag and arity%s' % ('' if not clash else ': %s' % clash[:2]), nontrivial=False)


def _replay_key():
    return '''
from hiten.system import System
s = System.from_bodies("earth", "moon"); l1 = s.get_libration_point(1)
o = l1.create_orbit("halo", amplitude_z=0.02, zenith="southern")
from hiten.algorithms.types.services.base import _DynamicsServiceBase
opts = o.correction_options if hasattr(o, "correction_options") else o._correction.correction_options
d1 = opts.to_dict()
import copy
d2 = copy.deepcopy(d1)
def bump(d):
    for k, v in d.items():
        if isinstance(v, dict):
            if bump(v): return True
        elif isinstance(v, float):
            d[k] = v * 10.0 + 1e-3; return True
    return False
changed = bump(d2)
svc = o.dynamics
k1 = svc.make_key("correct", tuple(sorted(d1.items()))); k2 = svc.make_key("correct", tuple(sorted(d2.items())))
_verdict(changed and d1 != d2 and k1 == k2, options_differ=(d1 != d2), keys_equal=(k1 == k2))
'''


# --------------------------------------------------------------------------- (b) histories on the real orbit services

def orbit_histories(chk, max_len, alphabet, label):
    """Real _OrbitDynamicsService / _OrbitCorrectionService / _OrbitContinuationService on a stand-in orbit; every expensive
    computation is an uninterpreted function of ALL the logical inputs it reads.  After every history each observable must equal
    that function of the CURRENT logical state (what a fresh object in the same state would compute)."""
    from hiten.algorithms.types.services import orbits as so
    chk.encode(so._OrbitDynamicsService.propagate, so._OrbitDynamicsService.__dict__['monodromy'].fget, so._OrbitDynamicsService.compute_stability,
               so._OrbitDynamicsService.__dict__['period'].fset, so._OrbitDynamicsService.__dict__['trajectory'].fget,
               so._OrbitDynamicsService.__dict__['stability_indices'].fget, so._OrbitCorrectionService.correct,
               so._OrbitCorrectionService.apply_correction, so._OrbitCorrectionService.__dict__['corrector'].fget,
               so._OrbitCorrectionService.__dict__['correction_config'].fset, so._OrbitContinuationService.generate,
               so._OrbitContinuationService.apply_continuation, so._OrbitContinuationService.__dict__['generator'].fget)
    saved = {n: getattr(so, n) for n in ('_propagate_dynsys', '_compute_monodromy', '_compute_stm', '_LinalgBackend', 'Trajectory', 'CorrectorPipeline', 'ContinuationPipeline')}
    DIM = 2

    def prop(dynsys=None, state0=None, t0=None, tf=None, forward=1, steps=None, method=None, order=None, **k):
        return ('TRAJ', syms(state0), Sym.lift(tf), steps, method, order, forward)
    so._propagate_dynsys = prop
    so.Trajectory = Stub(from_solution=lambda sol, **k: sol)
    so._compute_monodromy = lambda dynsys, x0, per: ('MONO', syms(x0), Sym.lift(per))
    so._compute_stm = lambda dynsys, x0, per, **k: (None, None, ('PHI', syms(x0), Sym.lift(per)), None)
    so._LinalgBackend = lambda: Stub(stability_indices=lambda Phi: (('IDX', Phi), ('VALS', Phi), ('VECS', Phi)))

    def corr_fn(cfg, state, tolv):
        a = [Sym.lift(v) for v in state]
        return ([opaque('corr_%s_%d' % (cfg, i), *a, tolv) for i in range(DIM)], constrain(opaque('half_%s' % cfg, *a, tolv), lo=0, lo_strict=True))

    def gen_fn(cfg, state, per, tolv):
        a = [Sym.lift(v) for v in state] + [Sym.lift(per), tolv]
        return [opaque('gen_%s_%d' % (cfg, i), *a) for i in range(DIM)], opaque('genpar_%s' % cfg, *a)

    def make_corrector(config=None, interface=None, backend=None):
        def do_correct(d, options=None):
            tolv = options.to_dict()['base']['tol']
            st, hp = corr_fn(config, d.dynamics.initial_state, tolv)
            return Stub(x_corrected=np.array([HSym(v.t) for v in st]), half_period=HSym(hp.t), iterations=1, residual_norm=0.0)
        return Stub(correct=do_correct)
    so.CorrectorPipeline = Stub(with_default_engine=make_corrector)

    def make_generator(config=None):
        def do_generate(d, options):
            tolv = options.to_dict()['base']['tol']
            st, par = gen_fn(config, d.dynamics.initial_state, d.dynamics.period, tolv)
            member = Stub(initial_state=np.array(st))
            return Stub(family=[d, member], accepted_count=1, rejected_count=0, iterations=1, success_rate=1.0, parameter_values=[np.array([par])])
        return Stub(generate=do_generate)
    so.ContinuationPipeline = Stub(with_default_engine=make_generator)

    x0 = [hvar('x%d' % i) for i in range(DIM)]
    P = [hvar('per%d' % i) for i in range(3)]
    OPT = [hvar('tol%d' % i) for i in range(2)]
    violations = {}
    nhist = 0
    ex = Explorer(max_paths=20000, time_budget_s=1500)
    ex.congruence = True
    with explore.activate(ex):
        for p in P:
            ex.assume(p > 0)
        ex.assume(OPT[0] - OPT[1] != 0)
    DynCls = type('Dyn', (so._OrbitDynamicsService,), {})
    DynCls.__abstractmethods__ = frozenset()
    CorrCls = type('Corr', (so._OrbitCorrectionService,), {'_default_correction_config': lambda self: 'CFG0'})
    CorrCls.__abstractmethods__ = frozenset()
    ContCls = type('Cont', (so._OrbitContinuationService,), {'_default_continuation_config': lambda self: 'GCFG0'})
    ContCls.__abstractmethods__ = frozenset()

    class Dom(Stub):
        """Stand-in orbit: only the attributes the services read."""
        def __init__(self, libration_point=None, initial_state=None, **kw):
            Stub.__init__(self, _initial_state=initial_state, _libration_point=libration_point, libration_point=libration_point, **kw)
            self.dynamics = DynCls(self)

        def __hash__(self):
            return 7        # constant: id-based hashes would make dict probing differ between re-executions

        def __eq__(self, o):
            return self is o

        period = property(lambda self: self.dynamics.period, lambda self, v: setattr(self.dynamics, 'period', v))
        initial_state = property(lambda self: self.dynamics.initial_state)

    def fresh():
        dom = Dom(libration_point=Stub(system=Stub(mu=W.var('mu'), dynsys='DYN', var_dynsys='VAR')), initial_state=np.array(list(x0)))
        return dom, dom.dynamics, CorrCls(dom), ContCls(dom)

    def options(k):
        tolv = OPT[k]
        return Stub(to_dict=lambda: {'base': {'tol': tolv, 'max_attempts': 5}, 'forward': 1}), tolv

    def run_history(hist):
        dom, dyn, corr, cont = fresh()
        dyn.period = P[2]
        model = {'state': list(x0), 'period': P[2], 'last_prop': None, 'cfg': 'CFG0'}
        problems = []
        for op in hist:
            try:
                if op[0] == 'P':
                    p = P[int(op[1])]
                    dyn.period = p
                    if not eqv(model['period'], p):
                        model['last_prop'] = None
                        model['period'] = p
                elif op[0] == 'R':
                    steps = int(op[1])
                    got = dyn.propagate(steps=steps, method='adaptive', order=8)
                    want = ('TRAJ', syms(model['state']), Sym.lift(model['period']), steps, 'adaptive', 8, 1)
                    model['last_prop'] = want
                    if not eqv(got, want):
                        problems.append('propagate() returned the trajectory of another request')
                    elif not eqv(dyn.trajectory, want):
                        problems.append('after propagate() the orbit trajectory attribute is not the trajectory just returned')
                elif op == 'M':
                    if not eqv(dyn.monodromy, ('MONO', syms(model['state']), Sym.lift(model['period']))):
                        problems.append('monodromy is that of an earlier state/period')
                elif op == 'S':
                    phi = ('PHI', syms(model['state']), Sym.lift(model['period']))
                    if not eqv(dyn.compute_stability(), (('IDX', phi), ('VALS', phi), ('VECS', phi))):
                        problems.append('compute_stability() result is that of an earlier state/period')
                elif op == 'E':
                    phi = ('PHI', syms(model['state']), Sym.lift(model['period']))
                    if not eqv(dyn.stability_indices, ('IDX', phi)):
                        problems.append('stability_indices are those of an earlier state/period')
                elif op == 'T':
                    try:
                        got = dyn.trajectory
                    except ValueError:
                        got = None
                    if model['last_prop'] is None:
                        if got is not None:
                            problems.append('a trajectory of an earlier state/period is still readable after the state changed')
                    elif got is None or not eqv(got, model['last_prop']):
                        problems.append('trajectory is not the one of the most recent propagate() of the current state')
                elif op == 'K':
                    model['cfg'] = 'CFG1' if model['cfg'] == 'CFG0' else 'CFG0'
                    corr.correction_config = model['cfg']
                elif op[0] == 'C':
                    opts, tolv = options(int(op[1]))
                    st, per, res = corr.correct(options=opts)
                    want_state, want_half = corr_fn(model['cfg'], model['state'], tolv)
                    if not (eqv(list(st), want_state) and eqv(per, 2 * want_half)):
                        problems.append('correct() returned the result of a correction from another starting state, configuration or options')
                    elif not (eqv(list(dyn.initial_state), want_state) and eqv(dyn.period, 2 * want_half)):
                        problems.append('after correct() the orbit does not carry the returned state/period')
                    model['state'] = [HSym(Sym.lift(v).t) for v in dyn.initial_state]
                    model['period'] = dyn.period
                    model['last_prop'] = None
                elif op[0] == 'G':
                    opts, tolv = options(int(op[1]))
                    res = cont.generate(options=opts)
                    want_st, want_par = gen_fn('GCFG0', model['state'], model['period'], tolv)
                    if not (eqv(list(res.parameter_values[0]), [want_par]) and eqv(list(res.family[1].initial_state), want_st)):
                        problems.append('generate() returned a family continued from another state, period or options')
            except ValueError as e:
                problems.append('%s raised %s' % (op, str(e)[:60]))
                break
        return problems

    try:
        for L in range(1, max_len + 1):
            for hist in itertools.product(alphabet, repeat=L):
                if hist[-1][0] in 'PK':
                    continue        # the last operation must observe something
                nhist += 1
                paths = ex.run(lambda h=hist: run_history(h))
                for p in paths:
                    if p.exc is not None:
                        violations.setdefault('raised %s: %s' % (type(p.exc).__name__, str(p.exc)[:50]), (hist, None, [hist]))
                        continue
                    for pr in p.value:
                        if pr not in violations:
                            v, m = ex.check(p.conds(), p.atoms())
                            violations[pr] = (hist, model_to_env(m) if m is not None else {}, [hist])
                        elif len(violations[pr][2]) < 200 and hist not in violations[pr][2]:
                            violations[pr][2].append(hist)
    finally:
        for n, v in saved.items():
            setattr(so, n, v)
    st = chk.absorb(ex)
    chk.note('%s: %d histories of length <= %d over %s, %d symbolic-equality paths' % (label, nhist, max_len, alphabet, st['paths']))
    if ex.capped or ex.unknown or ex.nondeterministic:
        chk.unknown('C20/(b)orbit-histories/%s/complete' % label, 'exploration incomplete (capped=%s, unknown feasibility=%d)' % (ex.capped, ex.unknown))
    if not violations:
        chk.ok('C20/(b)orbit-histories/%s' % label, '%d operation sequences of length <= %d over %s x all equality patterns of the symbolic periods/states: every observable equals the uninterpreted computation applied to the current logical state' % (nhist, max_len, alphabet),
               sample={'histories': nhist, 'alphabet': alphabet})
    for pr, (hist, env, alts) in violations.items():
        # replay candidates: the first (shortest) history plus up to five others of different shape, preferring those in which
        # an input of the stale computation changes (configuration, options, period)
        def score(h):
            return (4 * ('K' in h) + 3 * ('C0' in h and 'C1' in h) + 2 * any(x[0] == 'P' for x in h) + len(set(x[0] for x in h)), -len(h))
        seen_sig, picked = {tuple(x[0] for x in alts[0])}, [alts[0]]
        for h in sorted(alts[1:], key=score, reverse=True):
            sig = tuple(x[0] for x in h)
            if sig not in seen_sig and len(picked) < 6:
                seen_sig.add(sig)
                picked.append(h)
        alts = picked
        key = 'C20/(b)orbit-histories/' + pr[:70]
        chk.fail(key, '%s after the history %s%s (also after %s)' % (pr, list(hist), (' with ' + fmt_env(env)) if env else '', [list(h) for h in alts[1:]]),
                 [_replay_history(h, env) for h in alts[:4]], env, replay_timeout=600)
    return nhist


def _period_variants(env):
    """Concrete period assignments to try in a history replay: generic values, plus the coincidences the solver's model shows
    (two symbolic periods equal, or close without being equal -- what an isclose-style comparison needs), plus coincidences with the
    period a correction returns (not a model variable: always tried)."""
    out = [('generic periods', [])]
    vals = {i: (env or {}).get('per%d' % i) for i in range(3)}
    for i in range(3):
        for j in range(i):
            a, b = vals[i], vals[j]
            if a is None or b is None:
                continue
            if a == b:
                out.append(('period %d = period %d' % (i, j), [(i, j, 0.0)]))
            elif abs(float(a) - float(b)) <= 1e-8 + 1e-4 * abs(float(b)):
                out.append(('period %d close to but not equal to period %d' % (i, j), [(i, j, 4e-6)]))
    out.append(('period 0 = the corrected period', [(0, 'pstar', 0.0)]))
    out.append(('initial period = the corrected period', [(2, 'pstar', 0.0)]))
    out.append(('period 0 close to but not equal to the corrected period', [(0, 'pstar', 4e-6)]))
    out.append(('initial period close to but not equal to the corrected period', [(2, 'pstar', 4e-6)]))
    return out[:6]


def _replay_history(hist, env=None):
    """Run the history on a real halo orbit and compare its last observation with a freshly constructed orbit in the same logical
    state (same initial state and period).  Tried with generic periods and with period 0 equal to the corrected period."""
    return '''
import warnings; warnings.filterwarnings("ignore")
from hiten.system import System
from hiten.algorithms.types.options import ConvergenceOptions, CorrectionOptions
from hiten.algorithms.corrector.options import OrbitCorrectionOptions
HIST = %r
VARIANT_SPECS = %r
s = System.from_bodies("earth", "moon"); l1 = s.get_libration_point(1)
def opts(k):
    return OrbitCorrectionOptions(base=CorrectionOptions(convergence=ConvergenceOptions(tol=(1e-6, 1e-12)[k], max_attempts=50, max_delta=1e-2)), forward=1)
def mk(state=None):
    if state is None:
        return l1.create_orbit("halo", amplitude_z=0.02, zenith="southern")
    return type(mk())(l1, initial_state=np.array(state, dtype=float))
Z0 = float(mk().initial_state[2])
def observe(o, op, last_prop):
    try:
        if op[0] == "R": t = o.propagate(steps=int(op[1]) * 10, method="adaptive", order=8); u = o.trajectory; return ("traj", np.asarray(t.times), np.asarray(t.states), np.asarray(u.times), np.asarray(u.states))
        if op == "M": return ("mono", np.asarray(o.monodromy))
        if op == "S": return ("stab",) + tuple(np.asarray(v) for v in o.dynamics.compute_stability())
        if op == "E": return ("idx", np.asarray(o.stability_indices))
        if op == "T":
            t = o.trajectory; return ("traj", np.asarray(t.times), np.asarray(t.states))
        if op[0] == "K":
            import dataclasses
            cfg = o.correction_config; o.correction_config = dataclasses.replace(cfg, target=(0.0, 1e-4 if cfg.target[1] == 0.0 else 0.0)); return ("none",)
        if op[0] == "G":
            from hiten.algorithms.continuation.options import OrbitContinuationOptions
            g = OrbitContinuationOptions(target=([Z0], [Z0 + 0.01]), step=(0.002,), max_members=3, max_retries_per_step=5, step_min=1e-10, step_max=1.0)
            r = o.generate(options=g); return ("gen", np.asarray([m.initial_state for m in r.family]), np.asarray(r.parameter_values, dtype=float).ravel())
        if op[0] == "C":
            r = o.correct(options=opts(int(op[1]))); return ("corr", np.asarray(r.x_corrected), np.asarray(o.initial_state), np.float64(o.period))
    except ValueError as e:
        return ("ValueError",)
def equal(a, b):
    if len(a) != len(b) or a[0] != b[0]: return False
    for x, y in zip(a[1:], b[1:]):
        if x.shape != y.shape or not np.allclose(x, y, rtol=1e-9, atol=1e-10): return False
    return True
def trial(PER):
    o = mk(); last_prop = None; o.period = PER[2]
    for op in HIST[:-1]:
        if op[0] == "P":
            if o.period != PER[int(op[1])]: last_prop = None
            o.period = PER[int(op[1])]
        else:
            if op[0] == "C" : last_prop = None
            if op[0] == "R" and o.period is not None: last_prop = op
            observe(o, op, last_prop)
    f = mk(o.initial_state.copy()); f.period = o.period; f.correction_config = o.correction_config
    last = HIST[-1]
    if last == "T" and last_prop is not None: observe(f, last_prop, None)
    a = observe(o, last, last_prop); b = observe(f, last, None)
    return (not equal(a, b)), a[0], b[0]
scout = mk(); scout.correct(options=opts(0)); pstar = float(scout.period)
BASE = [2.7, 3.1, 2.9]
VARIANTS = []
for name, spec in VARIANT_SPECS:          # spec: list of (index, 'pstar' | other index, relative offset)
    PER = list(BASE)
    for i, ref, off in spec:
        PER[i] = (pstar if ref == 'pstar' else PER[ref]) * (1.0 + off)
    VARIANTS.append((name, PER))
out = {}
for name, PER in VARIANTS:
    bad, ka, kb = trial(PER)
    out[name.replace(" ", "_").replace("=", "is")] = "%%s: object gives %%s, fresh twin gives %%s, differ=%%s" %% (name, ka, kb, bad)
    if bad:
        _verdict(True, **out)
_verdict(False, **out)
''' % (list(hist), _period_variants(env))


# --------------------------------------------------------------------------- (c) histories on the real centre-manifold service

def cm_histories(chk, max_len):
    """Real _CenterManifoldDynamicsService with the Hamiltonian pipeline and the map constructor as uninterpreted functions of
    (point, degree[, energy]); degrees and energies are symbolic (integer-declared / real).  Differential against a FRESH service
    put into the same logical state (degree): the last operation of every history must return the same value on both and leave
    both in the same logical state."""
    from hiten.algorithms.types.services import center as sc
    cls = sc._CenterManifoldDynamicsService
    chk.encode(cls.__dict__['degree'].fset, cls.__dict__['pipeline'].fget, cls.hamiltonian, cls.pipeline_for_degree, cls.get_map, cls.__dict__['hamsys'].fget)
    saved = {n: getattr(sc, n) for n in ('get_hamiltonian_services', 'CenterManifoldMap')}

    def pipe(point, degree):
        d = Sym.lift(degree)
        return Stub(tag=('PIPE', d), degree=d, get_hamiltonian=lambda form: Stub(tag=('HAM', d, form), degree=d, hamsys=Stub(tag=('HAMSYS', d, form), degree=d)))
    sc.get_hamiltonian_services = lambda: Stub(conversion='CONV', pipeline=Stub(get=pipe))
    sc.CenterManifoldMap = lambda dom, energy: ('MAP', Sym.lift(dom.dynamics.degree), Sym.lift(energy))
    Svc = type('CM', (cls,), {'_configure_point': lambda self: None})

    class Dom(Stub):
        def __hash__(self):
            return 7

        def __eq__(self, o):
            return self is o

    def ivar(name):
        return ISym(W.var(name).t)
    D = [ivar('deg%d' % i) for i in range(3)]
    E_ = [hvar('energy%d' % i) for i in range(2)]
    ex = Explorer(max_paths=20000, time_budget_s=1500)
    ex.congruence = True
    with explore.activate(ex):
        for d in D:
            ex.assume(d >= 1)

    counter = [0]

    def fresh(degree):
        counter[0] += 1
        dom = Dom(_point='POINT', _max_degree=degree, __verif_id__=1000 + counter[0])
        dom.dynamics = Svc(dom)
        return dom.dynamics

    def tagof(v):
        return v.tag if isinstance(v, Stub) else v

    def do(svc, op):
        if op[0] == 'D':
            svc.degree = D[int(op[1])]
            return ('none',)
        if op[0] == 'H':
            return tagof(svc.hamiltonian(D[int(op[1])]))
        if op == 'Y':
            return tagof(svc.hamsys)
        if op == 'L':
            return tagof(svc.pipeline)
        if op[0] == 'M':
            return svc.get_map(E_[int(op[1])])
        raise AssertionError(op)

    def run_history(hist):
        counter[0] = 0
        svc = fresh(D[2])
        for op in hist[:-1]:
            do(svc, op)
        twin = fresh(svc.degree)          # a freshly constructed object in the same logical state
        got, want = do(svc, hist[-1]), do(twin, hist[-1])
        problems = []
        if not eqv(got, want):
            problems.append('returns a value that a fresh object in the same logical state would not compute')
        if not eqv(svc.degree, twin.degree):
            problems.append('leaves the object in a different logical state (degree) than it leaves a fresh object')
        else:
            # the state after the operation must also be observably the same: read the degree-dependent quantities once more
            for probe in ('L', 'Y'):
                if not eqv(do(svc, probe), do(twin, probe)):
                    problems.append('a degree-dependent quantity read afterwards differs from a fresh object')
                    break
        return ['%s %s' % ({'D': 'setting the degree', 'H': 'hamiltonian(degree)', 'Y': 'hamsys', 'L': 'pipeline', 'M': 'poincare_map(energy)'}[hist[-1][0]], p) for p in problems]

    alphabet = ['D0', 'D1', 'H0', 'H1', 'Y', 'L', 'M0', 'M1']
    violations, nhist = {}, 0
    try:
        for L in range(1, max_len + 1):
            for hist in itertools.product(alphabet, repeat=L):
                nhist += 1
                for p in ex.run(lambda h=hist: run_history(h)):
                    if p.exc is not None:
                        violations.setdefault('raised %s: %s' % (type(p.exc).__name__, str(p.exc)[:60]), (hist, {}, [hist]))
                        continue
                    for pr in p.value:
                        if pr not in violations:
                            v, m = ex.check(p.conds(), p.atoms())
                            violations[pr] = (hist, model_to_env(m) if m is not None else {}, [hist])
    finally:
        for n, v in saved.items():
            setattr(sc, n, v)
    st = chk.absorb(ex)
    chk.note('centre manifold: %d histories of length <= %d over %s' % (nhist, max_len, alphabet))
    if ex.capped or ex.unknown or ex.nondeterministic:
        chk.unknown('C20/(c)centre-manifold-histories/complete', 'exploration incomplete (capped=%s, unknown=%d, nondeterministic=%d)' % (ex.capped, ex.unknown, ex.nondeterministic))
    if not violations:
        chk.ok('C20/(c)centre-manifold-histories', '%d operation sequences of length <= %d over %s x all equality patterns of three symbolic degrees and two energies: the last operation returns the same value, and leaves the same state, as on a fresh service in the same logical state' % (nhist, max_len, alphabet),
               sample={'histories': nhist, 'alphabet': alphabet})
    for pr, (hist, env, alts) in violations.items():
        chk.fail('C20/(c)centre-manifold-histories/' + pr[:80], '%s after the history %s%s' % (pr, list(hist), (' with ' + fmt_env(env)) if env else ''), _replay_cm(hist, env), env, replay_timeout=900)
    return nhist


def _replay_cm(hist, env):
    """Real build: Earth-Moon L1 centre manifold; symbolic degrees mapped to small concrete degrees respecting the model's equalities."""
    # concrete degrees with the same order and equalities as the model's values (a change may need "lower" or "raise" specifically)
    mv = [env.get('deg%d' % i) for i in range(3)]
    distinct = sorted(set(v for v in mv if v is not None))
    degs = [2 + distinct.index(v) if v is not None else 3 for v in mv]
    return '''
from hiten.system import System
from hiten.system.center import CenterManifold
HIST, DEG = %r, %r
EN = [0.6, 0.7]
l1 = System.from_bodies("earth", "moon").get_libration_point(1)
def do(cm, op):
    if op[0] == "D": cm.degree = DEG[int(op[1])]; return ("none",)
    if op[0] == "H": h = cm.hamiltonian(DEG[int(op[1])]); return ("ham", int(h.degree))
    if op == "Y": return ("hamsys", int(cm.dynamics.hamsys.degree))
    if op == "L": return ("pipeline", int(cm.dynamics.pipeline.degree))
    if op[0] == "M": m = cm.poincare_map(EN[int(op[1])]); return ("map", float(m.energy) if hasattr(m, "energy") else 0.0, int(cm.degree))
cm = CenterManifold(l1, DEG[2])
for op in HIST[:-1]: do(cm, op)
twin = CenterManifold(l1, cm.degree)
a, b = do(cm, HIST[-1]), do(twin, HIST[-1])
state_a, state_b = int(cm.degree), int(twin.degree)
after_a, after_b = do(cm, "Y"), do(twin, "Y")
_verdict(a != b or state_a != state_b or after_a != after_b, history=HIST, degrees=DEG, returned=(a, b), degree_after=(state_a, state_b), hamsys_degree_after=(after_a, after_b))
''' % (list(hist), degs)


# --------------------------------------------------------------------------- (d) histories on the real manifold service

def manifold_histories(chk, max_len):
    """Real _ManifoldDynamicsService on a stand-in manifold of a stand-in orbit whose state and period can change (as a correction
    or a period assignment on the generating orbit does).  STM integration, the manifold computation and the eigen-decomposition
    are uninterpreted functions of all logical inputs.  Differential against a fresh service on a fresh orbit in the same state."""
    from hiten.algorithms.types.services import manifold as sm
    cls = sm._ManifoldDynamicsService
    chk.encode(cls.compute_stm, cls.compute_manifold, cls.compute_stability, cls.__dict__['manifold_result'].fget, cls.__dict__['generator'].fget,
               cls.__dict__['eigendecomposition_config'].fset)
    saved = {n: getattr(sm, n) for n in ('_compute_stm', 'StabilityPipeline')}
    sm._compute_stm = lambda dynsys, x0, per, steps=None, forward=1, **k: (None, None, ('PHI', syms(x0), Sym.lift(per), steps, forward), None)

    def make_generator(config=None):
        g = Stub(result=None, config=config)

        def compute(domain_obj=None, options=None):
            g.result = ('EIG', config, domain_obj, options.to_dict()['tol'])
            return g
        g.compute = compute
        return g
    sm.StabilityPipeline = Stub(with_default_engine=make_generator)

    def run_compute(self, **k):
        return ('MANIFOLD', syms(self.orbit.initial_state), Sym.lift(self.period), self.stable, self.direction, tuple(sorted((n, v) for n, v in k.items() if n != 'show_progress')))
    Svc = type('Man', (cls,), {'_run_compute': run_compute})

    class Obj(Stub):
        def __hash__(self):
            return 7

        def __eq__(self, o):
            return self is o
    X = [[hvar('mx%d_%d' % (k, i)) for i in range(2)] for k in range(2)]
    P = [hvar('mper%d' % i) for i in range(2)]
    STEP = [hvar('mstep%d' % i) for i in range(2)]
    TOL = [hvar('mtol%d' % i) for i in range(2)]
    ex = Explorer(max_paths=20000, time_budget_s=1500)
    ex.congruence = True
    with explore.activate(ex):
        for p in P:
            ex.assume(p > 0)
    counter = [0]

    def fresh(state, period, cfg):
        counter[0] += 2
        orbit = Obj(initial_state=np.array(list(state)), period=period, libration_point=Stub(system=Stub(mu=W.var('mu'), dynsys='DYN', var_dynsys='VAR', jacobian_dynsys='JAC')),
                    __verif_id__=2000 + counter[0])
        dom = Obj(_stable=True, _direction='positive', _generating_orbit=orbit, __verif_id__=2001 + counter[0])
        svc = Svc(dom)
        dom.dynamics = svc
        if cfg != 'ECFG0':
            svc.eigendecomposition_config = cfg
        else:
            svc._eigendecomposition_config = 'ECFG0'
        return svc

    def options(k):
        tol = TOL[k]
        return Stub(to_dict=lambda: {'delta': 1, 'tol': tol})

    def do(svc, op):
        orbit = svc.orbit
        if op[0] == 'X':
            orbit.initial_state = np.array(list(X[1]))
            return ('none',)
        if op[0] == 'P':
            orbit.period = P[1]
            return ('none',)
        if op[0] == 'S':
            return svc.compute_stm(steps=int(op[1]))
        if op[0] == 'C':
            return svc.compute_manifold(step=STEP[int(op[1])], integration_fraction=1, NN=1, displacement=1, method='adaptive', order=8, dt=1, energy_tol=1, safe_distance=1, show_progress=False)
        if op == 'R':
            return svc.manifold_result
        if op[0] == 'E':
            return svc.compute_stability(options(int(op[1]))).result
        if op == 'K':
            svc.eigendecomposition_config = 'ECFG1' if svc.eigendecomposition_config == 'ECFG0' else 'ECFG0'
            return ('none',)
        raise AssertionError(op)

    def run_history(hist):
        counter[0] = 0
        svc = fresh(X[0], P[0], 'ECFG0')
        last_c = None
        for op in hist[:-1]:
            before = (list(svc.orbit.initial_state), svc.orbit.period)
            do(svc, op)
            if op[0] == 'C':
                last_c = op
            elif op[0] in 'XP' and not eqv(before, (list(svc.orbit.initial_state), svc.orbit.period)):
                last_c = None       # the orbit really changed: results computed before belong to another state
        twin = fresh(list(svc.orbit.initial_state), svc.orbit.period, svc.eigendecomposition_config)
        if hist[-1] == 'R' and last_c is not None:
            do(twin, last_c)        # manifold_result is "the result of the most recent compute of the current state"
        got, want = do(svc, hist[-1]), do(twin, hist[-1])
        names = {'S': 'compute_stm', 'C': 'compute_manifold', 'R': 'manifold_result', 'E': 'compute_stability'}
        if hist[-1][0] in names and not eqv(got, want):
            return ['%s returns a value that a fresh manifold of the orbit in its current state would not compute' % names[hist[-1][0]]]
        return []
    alphabet = ['X', 'P', 'S5', 'S9', 'C0', 'C1', 'R', 'E0', 'E1', 'K']
    violations, nhist = {}, 0
    try:
        for L in range(1, max_len + 1):
            for hist in itertools.product(alphabet, repeat=L):
                if hist[-1][0] in 'XPK':
                    continue
                nhist += 1
                for p in ex.run(lambda h=hist: run_history(h)):
                    if p.exc is not None:
                        violations.setdefault('raised %s: %s' % (type(p.exc).__name__, str(p.exc)[:60]), (hist, {}, [hist]))
                        continue
                    for pr in p.value:
                        if pr not in violations:
                            v, m = ex.check(p.conds(), p.atoms())
                            violations[pr] = (hist, model_to_env(m) if m is not None else {}, [hist])
                        elif len(violations[pr][2]) < 200 and hist not in violations[pr][2]:
                            violations[pr][2].append(hist)
    finally:
        for n, v in saved.items():
            setattr(sm, n, v)
    chk.absorb(ex)
    chk.note('manifold: %d histories of length <= %d over %s' % (nhist, max_len, alphabet))
    if ex.capped or ex.unknown or ex.nondeterministic:
        chk.unknown('C20/(d)manifold-histories/complete', 'exploration incomplete (capped=%s, unknown=%d, nondeterministic=%d)' % (ex.capped, ex.unknown, ex.nondeterministic))
    if not violations:
        chk.ok('C20/(d)manifold-histories', '%d operation sequences of length <= %d over %s x all equality patterns of the symbolic orbit states, periods, steps and tolerances: the last operation returns what a fresh manifold of the orbit in its current state computes' % (nhist, max_len, alphabet),
               sample={'histories': nhist, 'alphabet': alphabet})
    for pr, (hist, env, alts) in violations.items():
        shapes, picked = set(), []
        for h in alts:
            sig = tuple(x[0] for x in h)
            if sig not in shapes and len(picked) < 4:
                shapes.add(sig)
                picked.append(h)
        chk.fail('C20/(d)manifold-histories/' + pr[:80], '%s after the history %s (also after %s)' % (pr, list(hist), [list(h) for h in picked[1:]]), [_replay_manifold(h) for h in picked], env, replay_timeout=900)
    return nhist


def manifold_request_parameters(chk):
    """Two consecutive compute_manifold requests on one real _ManifoldDynamicsService that differ in exactly ONE request parameter
    (read off the real signature) never share a cache entry: the second call returns what the manifold computation gives for the
    second request.  Numeric parameters are two symbolic values (the solver explores equal / different)."""
    import inspect
    from hiten.algorithms.types.services import manifold as sm
    cls = sm._ManifoldDynamicsService
    params = [n for n in inspect.signature(cls.compute_manifold).parameters if n not in ('self', 'show_progress')]

    def run_compute(self, **k):
        return ('MANIFOLD', self.stable, self.direction, tuple(sorted((n, v) for n, v in k.items() if n != 'show_progress')))
    Svc = type('Man', (cls,), {'_run_compute': run_compute})

    class Obj(Stub):
        def __hash__(self):
            return 7

        def __eq__(self, o):
            return self is o
    concrete = {'method': ('adaptive', 'fixed'), 'order': (8, 4), 'NN': (1, 2)}
    base = {'step': 0.25, 'integration_fraction': 1, 'NN': 1, 'displacement': 1, 'method': 'adaptive', 'order': 8, 'dt': 1, 'energy_tol': 1, 'safe_distance': 1}
    for name in params:
        ex = Explorer(max_paths=50)
        ex.congruence = True
        a, b = concrete.get(name, (hvar('mreq_a'), hvar('mreq_b')))

        def go():
            orbit = Obj(initial_state=np.array([0.8, 0.0, 0.1, 0.0, 0.2, 0.0]), period=3.0, libration_point=Stub(system=Stub(mu=0.01, dynsys='DYN', var_dynsys='VAR', jacobian_dynsys='JAC')), __verif_id__=4000)
            dom = Obj(_stable=True, _direction='positive', _generating_orbit=orbit, __verif_id__=4001)
            svc = Svc(dom)
            dom.dynamics = svc
            k1 = dict({n: base.get(n, 1) for n in params}, **{name: a})
            k2 = dict({n: base.get(n, 1) for n in params}, **{name: b})
            svc.compute_manifold(show_progress=False, **k1)
            got = svc.compute_manifold(show_progress=False, **k2)
            want = run_compute(svc, **k2)
            return eqv(got, want) and eqv(svc.manifold_result, want)
        paths = ex.run(go)
        chk.absorb(ex)
        oid = 'C20/(d)manifold-request-parameter/%s' % name
        bad = [p for p in paths if p.exc is not None or not p.value]
        if ex.capped or ex.unknown or ex.nondeterministic:
            chk.unknown(oid, 'exploration incomplete')
        elif bad:
            exc = [p.exc for p in bad if p.exc is not None]
            chk.fail(oid, ('raised %r' % (exc[0],)) if exc else 'a second compute_manifold request differing only in %r is answered with the result of the first request' % name, _replay_manifold_param(name))
        else:
            chk.ok(oid, 'requests differing only in %r do not share a cache entry (%d paths)' % (name, len(paths)))


def _replay_manifold_param(name):
    return '''
import warnings; warnings.filterwarnings("ignore")
from hiten.system import System
NAME = %r
PAIRS = {"step": (0.25, 0.5), "integration_fraction": (0.2, 0.3), "NN": (1, 2), "displacement": (1e-6, 1e-4), "method": ("adaptive", "fixed"), "order": (8, 4),
         "dt": (1e-3, 1e-2), "energy_tol": (1.0, 1e-18), "safe_distance": (2.0, 1e9)}
base = dict(step=0.25, integration_fraction=0.2, NN=1, displacement=1e-6, method="adaptive", order=8, dt=1e-3, energy_tol=1e-6, safe_distance=2.0, show_progress=False)
if NAME == "dt": base.update(method="fixed", order=4)
if NAME == "order": base.update(method="fixed", dt=1e-2)
l1 = System.from_bodies("earth", "moon").get_libration_point(1)
o = l1.create_orbit("halo", amplitude_z=0.02, zenith="southern"); o.correct()
def summary(r):
    return (len(r[2]), int(r[4]), int(r[5]), [np.asarray(x) for x in r[2][:2]])
def same(a, b):
    return a[:3] == b[:3] and all(x.shape == y.shape and np.allclose(x, y, rtol=1e-8, atol=1e-10) for x, y in zip(a[3], b[3]))
a, b = PAIRS.get(NAME, (1, 2))
m = o.manifold(stable=False, direction="positive")
m.dynamics.compute_manifold(**dict(base, **{NAME: a}))
got = summary(m.dynamics.compute_manifold(**dict(base, **{NAME: b})))
o2 = type(o)(l1, initial_state=o.initial_state.copy()); o2.period = o.period
want = summary(o2.manifold(stable=False, direction="positive").dynamics.compute_manifold(**dict(base, **{NAME: b})))
_verdict(not same(got, want), parameter=NAME, got=list(got[:3]), fresh=list(want[:3]))
''' % (name,)


def _replay_manifold(hist):
    return '''
import warnings; warnings.filterwarnings("ignore")
from hiten.system import System
from hiten.algorithms.linalg.options import EigenDecompositionOptions
HIST = %r
l1 = System.from_bodies("earth", "moon").get_libration_point(1)
def mk_orbit(state=None, period=None):
    o = l1.create_orbit("halo", amplitude_z=0.02, zenith="southern")
    if state is None:
        o.correct(); return o
    o2 = type(o)(l1, initial_state=np.array(state, dtype=float)); o2.period = period; return o2
def do(m, op):
    o = m.dynamics.orbit
    if op[0] == "X":
        other = l1.create_orbit("halo", amplitude_z=0.03, zenith="southern"); other.correct()
        o.dynamics._initial_state = other.initial_state.copy(); o.period = other.period; return ("none",)
    if op[0] == "P": o.period = o.period * 1.01; return ("none",)
    if op[0] == "S": r = m.dynamics.compute_stm(steps=int(op[1]) * 40); return ("stm", np.asarray(r[2]))
    if op[0] == "C":
        r = m.dynamics.compute_manifold(step=(0.25, 0.5)[int(op[1])], integration_fraction=0.2, NN=1, displacement=1e-6, method="adaptive", order=8, dt=1e-3, energy_tol=1e-6, safe_distance=2.0, show_progress=False)
        return ("manifold", np.asarray(r[2][0]) if len(r[2]) else np.zeros(1), np.float64(len(r[2])))
    if op == "R":
        r = m.dynamics.manifold_result
        return ("none",) if r is None else ("manifold", np.asarray(r[2][0]) if len(r[2]) else np.zeros(1), np.float64(len(r[2])))
    if op[0] == "E":
        g = m.dynamics.compute_stability(EigenDecompositionOptions(delta=1e-6, tol=(1e-6, 1e4)[int(op[1])]))
        vals, vecs = g.eigenvalues, g.eigenvectors
        return ("eig", np.sort_complex(np.asarray(vals[0]).ravel()), np.sort_complex(np.asarray(vals[1]).ravel()), np.float64(np.asarray(vals[2]).size), np.float64(np.asarray(vecs[0]).shape[1]))
    if op == "K":
        import dataclasses
        from hiten.algorithms.linalg.types import _SystemType
        cfg = m.dynamics.eigendecomposition_config
        m.dynamics.eigendecomposition_config = dataclasses.replace(cfg, system_type=_SystemType.CONTINUOUS if cfg.system_type == _SystemType.DISCRETE else _SystemType.DISCRETE)
        return ("none",)
def equal(a, b):
    if len(a) != len(b) or a[0] != b[0]: return False
    return all(x.shape == y.shape and np.allclose(x, y, rtol=1e-8, atol=1e-10) for x, y in zip(a[1:], b[1:]))
o = mk_orbit(); m = o.manifold(stable=True, direction="positive")
last_c = None
for op in HIST[:-1]:
    do(m, op)
    if op[0] == "C": last_c = op
    elif op[0] in "XP": last_c = None
twin_orbit = mk_orbit(o.initial_state.copy(), o.period); twin = twin_orbit.manifold(stable=True, direction="positive")
twin.dynamics.eigendecomposition_config = m.dynamics.eigendecomposition_config
if HIST[-1] == "R" and last_c is not None: do(twin, last_c)
a, b = do(m, HIST[-1]), do(twin, HIST[-1])
_verdict(not equal(a, b), history=HIST, kinds=(a[0], b[0]), shapes=([x.shape for x in a[1:]], [x.shape for x in b[1:]]))
''' % (list(hist),)


# --------------------------------------------------------------------------- (e) histories across a libration point and the objects it hands out

def libration_histories(chk, max_len):
    """Real _LibrationDynamicsService on a stand-in point.  center_manifold(degree) hands out an object whose degree the caller
    may change afterwards (stand-in with the real degree/pipeline contract); the eigen pipeline and the Hamiltonian pipeline are
    uninterpreted functions of their logical inputs.  Differential against a fresh service on a fresh point."""
    from hiten.algorithms.types.services import libration as sl
    cls = sl._LibrationDynamicsService
    chk.encode(cls.compute_stability, cls.center_manifold, cls.hamiltonian, cls.hamsys, cls.__dict__['generator'].fget)
    saved = {n: getattr(sl, n) for n in ('StabilityPipeline', 'CenterManifold', '_LibrationPointInterface')}

    def make_generator(config=None, interface=None):
        g = Stub(result=None)

        def compute(domain_obj=None, options=None):
            g.result = ('EIG', config, options.to_dict()['tol'])
            return g
        g.compute = compute
        return g
    sl.StabilityPipeline = Stub(with_default_engine=make_generator)
    sl._LibrationPointInterface = lambda: 'IFACE'

    class CM:
        """Stand-in centre manifold: a mutable degree; the pipeline is a function of the CURRENT degree."""

        def __init__(self, point, degree):
            self.point, self.degree = point, degree
            self.dynamics = _Dyn(self)

        def compute(self, form='center_manifold_real'):
            return ('HAM', Sym.lift(self.degree), form)

    class _Dyn:
        def __init__(self, cm):
            self._cm = cm

        @property
        def pipeline(self):
            cm = self._cm
            return Stub(get_hamiltonian=lambda form: Stub(tag=('HAM', Sym.lift(cm.degree), form), hamsys=('HAMSYS', Sym.lift(cm.degree), form)))
    sl.CenterManifold = CM
    Svc = type('Lib', (cls,), {})
    Svc.__abstractmethods__ = frozenset()

    class Obj(Stub):
        def __hash__(self):
            return 7

        def __eq__(self, o):
            return self is o
    D = [ISym(W.var('ldeg%d' % i).t) for i in range(2)]
    TOL = [hvar('ltol%d' % i) for i in range(2)]
    ex = Explorer(max_paths=20000, time_budget_s=1500)
    ex.congruence = True
    with explore.activate(ex):
        for d in D:
            ex.assume(d >= 1)
    counter = [0]

    def fresh(cfg):
        counter[0] += 1
        dom = Obj(system=Stub(mu=W.var('mu')), idx=1, __verif_id__=3000 + counter[0])
        svc = Svc(dom)
        dom.dynamics = svc
        svc._eigendecomposition_config = cfg
        return svc

    def do(svc, op, handles):
        if op[0] == 'G':
            h = svc.center_manifold(D[int(op[1])])
            handles.append(h)
            return ('CM', Sym.lift(h.degree))
        if op[0] == 'D':
            if handles:
                handles[-1].degree = D[int(op[1])]      # the caller re-targets the object it was handed
            return ('none',)
        if op[0] == 'H':
            return svc.hamiltonian(D[int(op[1])], 'physical').tag
        if op[0] == 'Y':
            return svc.hamsys(D[int(op[1])], 'physical')
        if op[0] == 'E':
            tol = TOL[int(op[1])]
            return svc.compute_stability(Stub(to_dict=lambda: {'delta': 1, 'tol': tol})).result
        if op == 'K':
            svc.eigendecomposition_config = 'LCFG1' if svc.eigendecomposition_config == 'LCFG0' else 'LCFG0'
            return ('none',)
        raise AssertionError(op)

    def run_history(hist):
        counter[0] = 0
        svc, handles = fresh('LCFG0'), []
        for op in hist[:-1]:
            do(svc, op, handles)
        twin = fresh(svc.eigendecomposition_config)        # the point itself has no mutable state besides its configuration
        got, want = do(svc, hist[-1], handles), do(twin, hist[-1], [])
        names = {'G': 'center_manifold(degree)', 'H': 'hamiltonian(degree, form)', 'Y': 'hamsys(degree, form)', 'E': 'compute_stability'}
        if hist[-1][0] in names and not eqv(got, want):
            return ['%s returns a value that a fresh libration point would not compute' % names[hist[-1][0]]]
        return []
    alphabet = ['G0', 'G1', 'D0', 'D1', 'H0', 'H1', 'Y0', 'E0', 'E1', 'K']
    violations, nhist = {}, 0
    try:
        for L in range(1, max_len + 1):
            for hist in itertools.product(alphabet, repeat=L):
                if hist[-1][0] in 'DK':
                    continue
                nhist += 1
                for p in ex.run(lambda h=hist: run_history(h)):
                    if p.exc is not None:
                        violations.setdefault('raised %s: %s' % (type(p.exc).__name__, str(p.exc)[:60]), (hist, {}, [hist]))
                        continue
                    for pr in p.value:
                        if pr not in violations:
                            v, m = ex.check(p.conds(), p.atoms())
                            violations[pr] = (hist, model_to_env(m) if m is not None else {}, [hist])
                        elif len(violations[pr][2]) < 200 and hist not in violations[pr][2]:
                            violations[pr][2].append(hist)
    finally:
        for n, v in saved.items():
            setattr(sl, n, v)
    chk.absorb(ex)
    chk.note('libration point: %d histories of length <= %d over %s' % (nhist, max_len, alphabet))
    if ex.capped or ex.unknown or ex.nondeterministic:
        chk.unknown('C20/(e)libration-histories/complete', 'exploration incomplete (capped=%s, unknown=%d, nondeterministic=%d)' % (ex.capped, ex.unknown, ex.nondeterministic))
    if not violations:
        chk.ok('C20/(e)libration-histories', '%d operation sequences of length <= %d over %s (including re-targeting a centre manifold the point handed out) x all equality patterns of the symbolic degrees and tolerances: the last operation returns what a fresh libration point computes' % (nhist, max_len, alphabet),
               sample={'histories': nhist, 'alphabet': alphabet})
    for pr, (hist, env, alts) in violations.items():
        shapes, picked = set(), []
        for h in alts:
            sig = tuple(x[0] for x in h)
            if sig not in shapes and len(picked) < 4:
                shapes.add(sig)
                picked.append(h)
        chk.fail('C20/(e)libration-histories/' + pr[:80], '%s after the history %s (also after %s)' % (pr, list(hist), [list(h) for h in picked[1:]]), [_replay_libration(h) for h in picked], env, replay_timeout=900)
    return nhist


def _replay_libration(hist):
    return '''
import warnings; warnings.filterwarnings("ignore")
from hiten.system import System
from hiten.algorithms.linalg.options import EigenDecompositionOptions
HIST, DEG = %r, [3, 2]
def point(): return System.from_bodies("earth", "moon").get_libration_point(3 if any(op[0] in "EK" for op in HIST) else 1)      # at L3 the classification depends on delta
def do(p, op, handles):
    if op[0] == "G": h = p.get_center_manifold(DEG[int(op[1])]); handles.append(h); return ("cm", int(h.degree))
    if op[0] == "D":
        if handles: handles[-1].degree = DEG[int(op[1])]
        return ("none",)
    if op[0] == "H": return ("ham", int(p.hamiltonian(max_deg=DEG[int(op[1])], form="physical").degree))
    if op[0] == "Y": return ("hamsys", int(p.dynamics.hamsys(DEG[int(op[1])], "physical").degree))
    if op[0] == "E":
        g = p.dynamics.compute_stability(EigenDecompositionOptions(delta=(1e-6, 0.9)[int(op[1])], tol=1e-6)); v = g.eigenvalues
        return ("eig", tuple(int(np.asarray(x).size) for x in v))
    if op == "K":
        import dataclasses
        from hiten.algorithms.linalg.types import _SystemType
        cfg = p.dynamics.eigendecomposition_config
        p.dynamics.eigendecomposition_config = dataclasses.replace(cfg, system_type=_SystemType.DISCRETE if cfg.system_type == _SystemType.CONTINUOUS else _SystemType.CONTINUOUS)
        return ("none",)
p, handles = point(), []
for op in HIST[:-1]: do(p, op, handles)
twin = point(); twin.dynamics.eigendecomposition_config = p.dynamics.eigendecomposition_config
a, b = do(p, HIST[-1], handles), do(twin, HIST[-1], [])
_verdict(a != b, history=HIST, returned=(a, b))
''' % (list(hist),)


def main():
    chk = Check(PID)
    thorough = chk.tier == 'thorough'
    L = 4 if thorough else 3
    chk.bound(histories='all operation sequences of length <= %d: orbit services (12 operations), centre-manifold service (8), manifold service (10), libration-point service (10, incl. '
                        're-targeting a centre manifold the point handed out); symbolic periods, states, steps, tolerances, energies and (integer-declared) degrees: every equality pattern explored by the solver' % L,
              keys='three argument shapes used at the call sites, 3 symbolic leaves each', state_dimension=2,
              manifold_request_parameters='every parameter of the real compute_manifold signature: two consecutive requests differing in exactly that parameter (symbolic pair, or two concrete values for method/order/NN)')
    chk.assume('propagation, monodromy/STM, eigen-analysis, the corrector and continuation pipelines, the Hamiltonian pipeline, the map constructor and the manifold computation are uninterpreted functions of '
               'all logical inputs they read, with functional-consistency axioms',
               'orbit services: the reference is a hand-written fresh-object model; centre-manifold, manifold and libration-point services: the reference is a second instance of the REAL class put into the same logical state',
               'id() and hashes of stand-in objects are deterministic (re-execution determinism is checked by the explorer)')
    chk.out_of_scope('save/load round trips (pickle / HDF5 / file I/O: no symbolic content -- not decided by this family)', 'process-wide compiled-function caches keyed by id() (object identity and garbage collection are not modelled)',
                     'torus and system-level caches; histories interleaving more than one orbit with one manifold')
    key_builder(chk)
    if thorough:
        orbit_histories(chk, 4, ['P0', 'P1', 'R5', 'R9', 'M', 'S', 'E', 'T', 'C0', 'C1', 'K', 'G0'], 'all')
        cm_histories(chk, 4)
        manifold_histories(chk, 4)
        manifold_request_parameters(chk)
        libration_histories(chk, 4)
    else:
        orbit_histories(chk, 3, ['P0', 'P1', 'R5', 'R9', 'M', 'S', 'E', 'T', 'C0', 'C1', 'K', 'G0'], 'all')
        cm_histories(chk, 3)
        manifold_histories(chk, 3)
        manifold_request_parameters(chk)
        libration_histories(chk, 3)
    return chk.finish()


if __name__ == '__main__':
    sys.exit(main())

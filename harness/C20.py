"""C20 — cached objects always reflect their current logical state (cache clauses; persistence is outside this family)."""
from __future__ import annotations

import itertools
import sys
from fractions import Fraction

from harness.common import *  # noqa: F401,F403
from harness.common import np, Explorer, Check, Sym, W, explore, Stub, normal, model_to_env, fmt_env, opaque
from harness.drivers import same, constrain

PID = 'C20'


class HSym(Sym):
    """Hashable symbolic scalar (cache keys need hashes; equality stays a solver decision)."""
    __slots__ = ()

    def __hash__(self):
        return 12345


def hvar(name):
    v = W.var(name)
    return HSym(v.t)


def eqv(a, b):
    """Structural equality with solver-decided leaves (branches in the active explorer)."""
    if isinstance(a, (tuple, list)) or isinstance(b, (tuple, list)):
        if not (isinstance(a, (tuple, list)) and isinstance(b, (tuple, list))) or len(a) != len(b):
            return False
        return all(eqv(x, y) for x, y in zip(a, b))
    if hasattr(a, 'shape') and not isinstance(a, Sym):
        return eqv(list(np.asarray(a).reshape(-1)), list(np.asarray(b).reshape(-1)))
    la, lb = (Sym.lift(a) if not isinstance(a, str) else None), (Sym.lift(b) if not isinstance(b, str) else None)
    if la is not None and lb is not None:
        return bool(la == lb)
    return a == b


def syms(v):
    return tuple(Sym.lift(x) for x in v)


# --------------------------------------------------------------------------- (a) cache keys separate distinct requests

def key_builder(chk):
    from hiten.algorithms.types.services.base import _CacheServiceBase, _DynamicsServiceBase
    chk.encode(_CacheServiceBase.make_key, _DynamicsServiceBase.make_key, _CacheServiceBase.get_or_create, _CacheServiceBase.reset)
    svc = object.__new__(type('S', (_DynamicsServiceBase,), {}))
    _DynamicsServiceBase.__init__(svc, 'DOMAIN')
    shapes = {
        'flat options (tuple of (name, value) pairs)': lambda v: {'tol': v[0], 'max_attempts': v[1], 'forward': v[2]},
        'nested options (value is itself an options dict)': lambda v: {'base': {'convergence': {'tol': v[0], 'max_attempts': v[1]}, 'integration': {'order': 8, 'steps': v[2]}}, 'forward': 1},
        'list-valued option': lambda v: {'state_indices': [v[0], v[1]], 'step': (v[2],)},
    }
    for name, build in shapes.items():
        ex = Explorer(max_paths=200)
        a = [hvar('ka%d' % i) for i in range(3)]
        b = [hvar('kb%d' % i) for i in range(3)]

        def go():
            k1 = svc.make_key('correct', tuple(sorted(build(a).items())))
            k2 = svc.make_key('correct', tuple(sorted(build(b).items())))
            return bool(k1 == k2)
        paths = ex.run(go)
        bad = None
        for p in paths:
            if p.exc is not None:
                bad = ('raised %r' % (p.exc,), None)
                break
            if p.value:
                with explore.activate(ex):
                    goals = [(a[i] - b[i]) == 0 for i in range(3)]
                v, m, k = ex.prove_all(p, goals)
                if v != 'unsat':
                    bad = ('two requests that differ in option value %d get the same cache key' % k, m)
                    break
        chk.absorb(ex)
        oid = 'C20/(a)cache-key/%s' % name.split(' (')[0]
        if bad is None:
            chk.ok(oid, '%s: equal keys imply equal option values (%d paths)' % (name, len(paths)), sample={'shape': name, 'paths': len(paths)})
        else:
            env = model_to_env(bad[1]) if bad[1] is not None else {}
            chk.fail(oid, '%s: %s, e.g. %s' % (name, bad[0], fmt_env(env)), _replay_key(), env)
    # distinct quantities never share an entry: the service-level tags used at the call sites are pairwise different
    tags = set()
    import inspect
    import re
    from hiten.algorithms.types.services import orbits as so, manifold as sm, libration as sl, center as sc
    clash = []
    for mod in (so, sm, sl, sc):
        for cname, cls in vars(mod).items():
            if not inspect.isclass(cls):
                continue
            seen = {}
            for fname, fn in vars(cls).items():
                f = fn.fget if isinstance(fn, property) else fn
                if not callable(f):
                    continue
                try:
                    src = inspect.getsource(f)
                except (OSError, TypeError):
                    continue
                for mm in re.finditer(r'self\.make_key\((.*)\)', src):
                    args = mm.group(1)
                    first = [x for x in re.findall(r'"([^"]+)"|\'([^\']+)\'', args)]
                    tag = tuple(t[0] or t[1] for t in first) or ('<no tag: %s>' % args[:30],)
                    key = (tag, args.count(','))
                    if key in seen and seen[key] != fname:
                        clash.append((cname, seen[key], fname, tag))
                    seen[key] = fname
    (chk.ok if not clash else (lambda o, d: chk.fail(o, d, None)))('C20/(a)cache-key/tags-distinct-per-service', 'no two different accessors of one service build keys with the same literal tag and arity%s' % ('' if not clash else ': %s' % clash[:2]), nontrivial=False)


def _replay_key():
    return '''
from hiten.system import System
s = System.from_bodies("earth", "moon"); l1 = s.get_libration_point(1)
o = l1.create_orbit("halo", amplitude_z=0.02, zenith="southern")
from hiten.algorithms.types.services.base import _DynamicsServiceBase
opts = o.correction_options if hasattr(o, "correction_options") else o._correction.correction_options
d1 = opts.to_dict()
import copy
d2 = copy.deepcopy(d1)
def bump(d):
    for k, v in d.items():
        if isinstance(v, dict):
            if bump(v): return True
        elif isinstance(v, float):
            d[k] = v * 10.0 + 1e-3; return True
    return False
changed = bump(d2)
svc = o.dynamics
k1 = svc.make_key("correct", tuple(sorted(d1.items()))); k2 = svc.make_key("correct", tuple(sorted(d2.items())))
_verdict(changed and d1 != d2 and k1 == k2, options_differ=(d1 != d2), keys_equal=(k1 == k2))
'''


# --------------------------------------------------------------------------- (b) histories on the real orbit services

def orbit_histories(chk, max_len, alphabet, label):
    """Real _OrbitDynamicsService / _OrbitCorrectionService / _OrbitContinuationService on a stand-in orbit; every expensive
    computation is an uninterpreted function of ALL the logical inputs it reads.  After every history each observable must equal
    that function of the CURRENT logical state (what a fresh object in the same state would compute)."""
    from hiten.algorithms.types.services import orbits as so
    chk.encode(so._OrbitDynamicsService.propagate, so._OrbitDynamicsService.__dict__['monodromy'].fget, so._OrbitDynamicsService.compute_stability,
               so._OrbitDynamicsService.__dict__['period'].fset, so._OrbitDynamicsService.__dict__['trajectory'].fget,
               so._OrbitDynamicsService.__dict__['stability_indices'].fget, so._OrbitCorrectionService.correct,
               so._OrbitCorrectionService.apply_correction, so._OrbitCorrectionService.__dict__['corrector'].fget,
               so._OrbitCorrectionService.__dict__['correction_config'].fset, so._OrbitContinuationService.generate,
               so._OrbitContinuationService.apply_continuation, so._OrbitContinuationService.__dict__['generator'].fget)
    saved = {n: getattr(so, n) for n in ('_propagate_dynsys', '_compute_monodromy', '_compute_stm', '_LinalgBackend', 'Trajectory', 'CorrectorPipeline', 'ContinuationPipeline')}
    DIM = 2

    def prop(dynsys=None, state0=None, t0=None, tf=None, forward=1, steps=None, method=None, order=None, **k):
        return ('TRAJ', syms(state0), Sym.lift(tf), steps, method, order, forward)
    so._propagate_dynsys = prop
    so.Trajectory = Stub(from_solution=lambda sol, **k: sol)
    so._compute_monodromy = lambda dynsys, x0, per: ('MONO', syms(x0), Sym.lift(per))
    so._compute_stm = lambda dynsys, x0, per, **k: (None, None, ('PHI', syms(x0), Sym.lift(per)), None)
    so._LinalgBackend = lambda: Stub(stability_indices=lambda Phi: (('IDX', Phi), ('VALS', Phi), ('VECS', Phi)))

    def corr_fn(cfg, state, tolv):
        a = [Sym.lift(v) for v in state]
        return ([opaque('corr_%s_%d' % (cfg, i), *a, tolv) for i in range(DIM)], constrain(opaque('half_%s' % cfg, *a, tolv), lo=0, lo_strict=True))

    def gen_fn(cfg, state, per, tolv):
        a = [Sym.lift(v) for v in state] + [Sym.lift(per), tolv]
        return [opaque('gen_%s_%d' % (cfg, i), *a) for i in range(DIM)], opaque('genpar_%s' % cfg, *a)

    def make_corrector(config=None, interface=None, backend=None):
        def do_correct(d, options=None):
            tolv = options.to_dict()['base']['tol']
            st, hp = corr_fn(config, d.dynamics.initial_state, tolv)
            return Stub(x_corrected=np.array([HSym(v.t) for v in st]), half_period=HSym(hp.t), iterations=1, residual_norm=0.0)
        return Stub(correct=do_correct)
    so.CorrectorPipeline = Stub(with_default_engine=make_corrector)

    def make_generator(config=None):
        def do_generate(d, options):
            tolv = options.to_dict()['base']['tol']
            st, par = gen_fn(config, d.dynamics.initial_state, d.dynamics.period, tolv)
            member = Stub(initial_state=np.array(st))
            return Stub(family=[d, member], accepted_count=1, rejected_count=0, iterations=1, success_rate=1.0, parameter_values=[np.array([par])])
        return Stub(generate=do_generate)
    so.ContinuationPipeline = Stub(with_default_engine=make_generator)

    x0 = [hvar('x%d' % i) for i in range(DIM)]
    P = [hvar('per%d' % i) for i in range(3)]
    OPT = [hvar('tol%d' % i) for i in range(2)]
    violations = {}
    nhist = 0
    ex = Explorer(max_paths=20000, time_budget_s=1500)
    ex.congruence = True
    with explore.activate(ex):
        for p in P:
            ex.assume(p > 0)
        ex.assume(OPT[0] - OPT[1] != 0)
    DynCls = type('Dyn', (so._OrbitDynamicsService,), {})
    DynCls.__abstractmethods__ = frozenset()
    CorrCls = type('Corr', (so._OrbitCorrectionService,), {'_default_correction_config': lambda self: 'CFG0'})
    CorrCls.__abstractmethods__ = frozenset()
    ContCls = type('Cont', (so._OrbitContinuationService,), {'_default_continuation_config': lambda self: 'GCFG0'})
    ContCls.__abstractmethods__ = frozenset()

    class Dom(Stub):
        """Stand-in orbit: only the attributes the services read."""
        def __init__(self, libration_point=None, initial_state=None, **kw):
            Stub.__init__(self, _initial_state=initial_state, _libration_point=libration_point, libration_point=libration_point, **kw)
            self.dynamics = DynCls(self)

        def __hash__(self):
            return 7        # constant: id-based hashes would make dict probing differ between re-executions

        def __eq__(self, o):
            return self is o

        period = property(lambda self: self.dynamics.period, lambda self, v: setattr(self.dynamics, 'period', v))
        initial_state = property(lambda self: self.dynamics.initial_state)

    def fresh():
        dom = Dom(libration_point=Stub(system=Stub(mu=W.var('mu'), dynsys='DYN', var_dynsys='VAR')), initial_state=np.array(list(x0)))
        return dom, dom.dynamics, CorrCls(dom), ContCls(dom)

    def options(k):
        tolv = OPT[k]
        return Stub(to_dict=lambda: {'base': {'tol': tolv, 'max_attempts': 5}, 'forward': 1}), tolv

    def run_history(hist):
        dom, dyn, corr, cont = fresh()
        dyn.period = P[2]
        model = {'state': list(x0), 'period': P[2], 'last_prop': None, 'cfg': 'CFG0'}
        problems = []
        for op in hist:
            try:
                if op[0] == 'P':
                    p = P[int(op[1])]
                    dyn.period = p
                    if not eqv(model['period'], p):
                        model['last_prop'] = None
                        model['period'] = p
                elif op[0] == 'R':
                    steps = int(op[1])
                    got = dyn.propagate(steps=steps, method='adaptive', order=8)
                    want = ('TRAJ', syms(model['state']), Sym.lift(model['period']), steps, 'adaptive', 8, 1)
                    model['last_prop'] = want
                    if not eqv(got, want):
                        problems.append('propagate() returned the trajectory of another request')
                    elif not eqv(dyn.trajectory, want):
                        problems.append('after propagate() the orbit trajectory attribute is not the trajectory just returned')
                elif op == 'M':
                    if not eqv(dyn.monodromy, ('MONO', syms(model['state']), Sym.lift(model['period']))):
                        problems.append('monodromy is that of an earlier state/period')
                elif op == 'S':
                    phi = ('PHI', syms(model['state']), Sym.lift(model['period']))
                    if not eqv(dyn.compute_stability(), (('IDX', phi), ('VALS', phi), ('VECS', phi))):
                        problems.append('compute_stability() result is that of an earlier state/period')
                elif op == 'E':
                    phi = ('PHI', syms(model['state']), Sym.lift(model['period']))
                    if not eqv(dyn.stability_indices, ('IDX', phi)):
                        problems.append('stability_indices are those of an earlier state/period')
                elif op == 'T':
                    try:
                        got = dyn.trajectory
                    except ValueError:
                        got = None
                    if model['last_prop'] is None:
                        if got is not None:
                            problems.append('a trajectory of an earlier state/period is still readable after the state changed')
                    elif got is None or not eqv(got, model['last_prop']):
                        problems.append('trajectory is not the one of the most recent propagate() of the current state')
                elif op == 'K':
                    model['cfg'] = 'CFG1' if model['cfg'] == 'CFG0' else 'CFG0'
                    corr.correction_config = model['cfg']
                elif op[0] == 'C':
                    opts, tolv = options(int(op[1]))
                    st, per, res = corr.correct(options=opts)
                    want_state, want_half = corr_fn(model['cfg'], model['state'], tolv)
                    if not (eqv(list(st), want_state) and eqv(per, 2 * want_half)):
                        problems.append('correct() returned the result of a correction from another starting state, configuration or options')
                    elif not (eqv(list(dyn.initial_state), want_state) and eqv(dyn.period, 2 * want_half)):
                        problems.append('after correct() the orbit does not carry the returned state/period')
                    model['state'] = [HSym(Sym.lift(v).t) for v in dyn.initial_state]
                    model['period'] = dyn.period
                    model['last_prop'] = None
                elif op[0] == 'G':
                    opts, tolv = options(int(op[1]))
                    res = cont.generate(options=opts)
                    want_st, want_par = gen_fn('GCFG0', model['state'], model['period'], tolv)
                    if not (eqv(list(res.parameter_values[0]), [want_par]) and eqv(list(res.family[1].initial_state), want_st)):
                        problems.append('generate() returned a family continued from another state, period or options')
            except ValueError as e:
                problems.append('%s raised %s' % (op, str(e)[:60]))
                break
        return problems

    try:
        for L in range(1, max_len + 1):
            for hist in itertools.product(alphabet, repeat=L):
                if hist[-1][0] in 'PK':
                    continue        # the last operation must observe something
                nhist += 1
                paths = ex.run(lambda h=hist: run_history(h))
                for p in paths:
                    if p.exc is not None:
                        violations.setdefault('raised %s: %s' % (type(p.exc).__name__, str(p.exc)[:50]), (hist, None, [hist]))
                        continue
                    for pr in p.value:
                        if pr not in violations:
                            v, m = ex.check(p.conds(), p.atoms())
                            violations[pr] = (hist, model_to_env(m) if m is not None else {}, [hist])
                        elif len(violations[pr][2]) < 200 and hist not in violations[pr][2]:
                            violations[pr][2].append(hist)
    finally:
        for n, v in saved.items():
            setattr(so, n, v)
    st = chk.absorb(ex)
    chk.note('%s: %d histories of length <= %d over %s, %d symbolic-equality paths' % (label, nhist, max_len, alphabet, st['paths']))
    if ex.capped or ex.unknown or ex.nondeterministic:
        chk.unknown('C20/(b)orbit-histories/%s/complete' % label, 'exploration incomplete (capped=%s, unknown feasibility=%d)' % (ex.capped, ex.unknown))
    if not violations:
        chk.ok('C20/(b)orbit-histories/%s' % label, '%d operation sequences of length <= %d over %s x all equality patterns of the symbolic periods/states: every observable equals the uninterpreted computation applied to the current logical state' % (nhist, max_len, alphabet),
               sample={'histories': nhist, 'alphabet': alphabet})
    for pr, (hist, env, alts) in violations.items():
        # replay candidates: the first (shortest) history plus up to five others of different shape, preferring those in which
        # an input of the stale computation changes (configuration, options, period)
        def score(h):
            return (4 * ('K' in h) + 3 * ('C0' in h and 'C1' in h) + 2 * any(x[0] == 'P' for x in h) + len(set(x[0] for x in h)), -len(h))
        seen_sig, picked = {tuple(x[0] for x in alts[0])}, [alts[0]]
        for h in sorted(alts[1:], key=score, reverse=True):
            sig = tuple(x[0] for x in h)
            if sig not in seen_sig and len(picked) < 6:
                seen_sig.add(sig)
                picked.append(h)
        alts = picked
        key = 'C20/(b)orbit-histories/' + pr[:70]
        chk.fail(key, '%s after the history %s%s (also after %s)' % (pr, list(hist), (' with ' + fmt_env(env)) if env else '', [list(h) for h in alts[1:]]),
                 [_replay_history(h) for h in alts], env, replay_timeout=600)
    return nhist


def _replay_history(hist):
    """Run the history on a real halo orbit and compare its last observation with a freshly constructed orbit in the same logical
    state (same initial state and period).  Tried with generic periods and with period 0 equal to the corrected period."""
    return '''
import warnings; warnings.filterwarnings("ignore")
from hiten.system import System
from hiten.algorithms.types.options import ConvergenceOptions, CorrectionOptions
from hiten.algorithms.corrector.options import OrbitCorrectionOptions
HIST = %r
s = System.from_bodies("earth", "moon"); l1 = s.get_libration_point(1)
def opts(k):
    return OrbitCorrectionOptions(base=CorrectionOptions(convergence=ConvergenceOptions(tol=(1e-6, 1e-12)[k], max_attempts=50, max_delta=1e-2)), forward=1)
def mk(state=None):
    if state is None:
        return l1.create_orbit("halo", amplitude_z=0.02, zenith="southern")
    return type(mk())(l1, initial_state=np.array(state, dtype=float))
Z0 = float(mk().initial_state[2])
def observe(o, op, last_prop):
    try:
        if op[0] == "R": t = o.propagate(steps=int(op[1]) * 10, method="adaptive", order=8); u = o.trajectory; return ("traj", np.asarray(t.times), np.asarray(t.states), np.asarray(u.times), np.asarray(u.states))
        if op == "M": return ("mono", np.asarray(o.monodromy))
        if op == "S": return ("stab",) + tuple(np.asarray(v) for v in o.dynamics.compute_stability())
        if op == "E": return ("idx", np.asarray(o.stability_indices))
        if op == "T":
            t = o.trajectory; return ("traj", np.asarray(t.times), np.asarray(t.states))
        if op[0] == "K":
            import dataclasses
            cfg = o.correction_config; o.correction_config = dataclasses.replace(cfg, target=(0.0, 1e-4 if cfg.target[1] == 0.0 else 0.0)); return ("none",)
        if op[0] == "G":
            from hiten.algorithms.continuation.options import OrbitContinuationOptions
            g = OrbitContinuationOptions(target=([Z0], [Z0 + 0.01]), step=(0.002,), max_members=3, max_retries_per_step=5, step_min=1e-10, step_max=1.0)
            r = o.generate(options=g); return ("gen", np.asarray([m.initial_state for m in r.family]), np.asarray(r.parameter_values, dtype=float).ravel())
        if op[0] == "C":
            r = o.correct(options=opts(int(op[1]))); return ("corr", np.asarray(r.x_corrected), np.asarray(o.initial_state), np.float64(o.period))
    except ValueError as e:
        return ("ValueError",)
def equal(a, b):
    if len(a) != len(b) or a[0] != b[0]: return False
    for x, y in zip(a[1:], b[1:]):
        if x.shape != y.shape or not np.allclose(x, y, rtol=1e-9, atol=1e-10): return False
    return True
def trial(PER):
    o = mk(); last_prop = None; o.period = PER[2]
    for op in HIST[:-1]:
        if op[0] == "P":
            if o.period != PER[int(op[1])]: last_prop = None
            o.period = PER[int(op[1])]
        else:
            if op[0] == "C" : last_prop = None
            if op[0] == "R" and o.period is not None: last_prop = op
            observe(o, op, last_prop)
    f = mk(o.initial_state.copy()); f.period = o.period; f.correction_config = o.correction_config
    last = HIST[-1]
    if last == "T" and last_prop is not None: observe(f, last_prop, None)
    a = observe(o, last, last_prop); b = observe(f, last, None)
    return (not equal(a, b)), a[0], b[0]
scout = mk(); scout.correct(options=opts(0)); pstar = float(scout.period)
out = {}
for name, PER in (("generic periods", [2.7, 3.1, 2.9]), ("period 0 = the corrected period", [pstar, 3.1, 2.9]), ("initial period = the corrected period", [2.7, 3.1, pstar])):
    bad, ka, kb = trial(PER)
    out[name.replace(" ", "_").replace("=", "is")] = "%%s: object gives %%s, fresh twin gives %%s, differ=%%s" %% (name, ka, kb, bad)
    if bad:
        _verdict(True, **out)
_verdict(False, **out)
''' % (list(hist),)


def main():
    chk = Check(PID)
    thorough = chk.tier == 'thorough'
    L = 4 if thorough else 3
    chk.bound(histories='all operation sequences of length <= %d over a 9-letter alphabet on one orbit object, symbolic periods / tolerances (every equality pattern explored by the solver)' % L,
              keys='three argument shapes used at the call sites, 3 symbolic leaves each')
    chk.assume('propagation, monodromy/STM, eigen-analysis and the corrector are uninterpreted functions of all logical inputs they read')
    chk.out_of_scope('save/load round trips (pickle / HDF5 / file I/O: no symbolic content -- not decided by this family)', 'process-wide compiled-function caches keyed by id() (object identity and garbage collection are not modelled)',
                     'manifold, torus and system-level caches beyond their key construction')
    key_builder(chk)
    if thorough:
        orbit_histories(chk, 4, ['P0', 'P1', 'R5', 'R9', 'M', 'S', 'E', 'T', 'C0', 'C1', 'K', 'G0'], 'all')
    else:
        orbit_histories(chk, 3, ['P0', 'P1', 'R5', 'R9', 'M', 'S', 'E', 'T', 'C0', 'C1', 'K', 'G0'], 'all')
    return chk.finish()


if __name__ == '__main__':
    sys.exit(main())

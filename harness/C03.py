"""C03 — the state-transition matrix is the derivative of the flow and is symplectic."""
from __future__ import annotations

import sys

from harness.common import *  # noqa: F401,F403
from harness.common import np, Explorer, Check, Sym, W, prove_zero, model_to_env, Stub, fmt_env, validate, rng, explore
from harness.C01 import state_vars, domain

PID = 'C03'
NAMES = 'x y z vx vy vz'.split()


def replay_direction(env, k, forward):
    return '''
# The STM returned for forward=%(fw)d must be the derivative of the final state of that same (time-reversed) flow
# with respect to the initial state.  Compare with central finite differences of the public propagator.
from hiten.algorithms.dynamics.rtbp import _compute_stm, variational_dynsys, rtbp_dynsys
from hiten.algorithms.dynamics.base import _propagate_dynsys
mu = %(mu)r; x0 = np.array(%(x0)r, dtype=float); T = 0.4
xs, ts, Phi, _ = _compute_stm(variational_dynsys(mu), x0, T, steps=50, forward=%(fw)d)
def flow(x):
    return _propagate_dynsys(rtbp_dynsys(mu), x, 0.0, T, forward=%(fw)d, steps=50).states[-1]
h = 1e-6
FD = np.zeros((6, 6))
for j in range(6):
    e = np.zeros(6); e[j] = h
    FD[:, j] = (flow(x0 + e) - flow(x0 - e)) / (2*h)
same_traj = np.allclose(xs[-1], flow(x0), atol=1e-5)
err = np.max(np.abs(Phi - FD))
_verdict(same_traj and err > 1e-4 * max(1.0, np.max(np.abs(FD))), max_abs_diff=float(err), norm_FD=float(np.max(np.abs(FD))))
''' % {'fw': forward, 'mu': float(env.get('mu', 0.0121)) or 0.0121, 'x0': [0.8, 0.05, 0.1, 0.02, 0.3, 0.05]}


def _replay_general():
    """General confirmation on the compiled build: for a generic out-of-plane state (and a corrected halo over one period) the STM
    equals the finite-difference derivative of the flow, is symplectic for the CR3BP two-form, the backward STM is the inverse of
    the forward one, and the orbit's monodromy is the forward STM over one period."""
    return '''
import warnings; warnings.filterwarnings("ignore")
from hiten.system import System
from hiten.algorithms.dynamics.rtbp import _compute_stm
from hiten.algorithms.dynamics.base import _propagate_dynsys
sysm = System.from_bodies("earth", "moon"); var, dyn = sysm.var_dynsys, sysm.dynsys
bad = {}
def flow(x, tf, forward=1):
    sol = _propagate_dynsys(dynsys=dyn, state0=np.asarray(x, dtype=float), t0=0.0, tf=tf, forward=forward, steps=400, method="adaptive", order=8)
    return np.asarray(sol.states[-1], dtype=float)
Om = np.zeros((6, 6)); Om[0, 1] = -2.0; Om[1, 0] = 2.0
for i in range(3): Om[i, 3 + i] = 1.0; Om[3 + i, i] = -1.0
for name, x0, tf in (("generic_out_of_plane", np.array([0.83, 0.02, 0.05, 0.01, 0.12, -0.03]), 0.9),):
    xx, tt, PhiT, PHI = _compute_stm(var, x0, tf, steps=400, forward=1)
    PhiT = np.asarray(PhiT, dtype=float)
    FD = np.zeros((6, 6)); e = 1e-6
    for j in range(6):
        d = np.zeros(6); d[j] = e
        FD[:, j] = (flow(x0 + d, tf) - flow(x0 - d, tf)) / (2 * e)
    err = float(np.max(np.abs(PhiT - FD)) / max(1.0, float(np.max(np.abs(FD)))))
    if err > 1e-5: bad[name + "_stm_vs_finite_differences"] = err
    sym = float(np.max(np.abs(PhiT.T @ Om @ PhiT - Om)))
    if sym > 1e-6 * max(1.0, float(np.max(np.abs(PhiT))) ** 2): bad[name + "_symplectic_defect"] = sym
    if abs(float(np.linalg.det(PhiT)) - 1.0) > 1e-6: bad[name + "_determinant"] = float(np.linalg.det(PhiT))
    xb, tb, PhiB, _ = _compute_stm(var, np.asarray(xx[-1], dtype=float), tf, steps=400, forward=-1)
    inv = float(np.max(np.abs(np.asarray(PhiB, dtype=float) @ PhiT - np.eye(6))))
    if inv > 1e-5 * max(1.0, float(np.max(np.abs(PhiT)))): bad[name + "_backward_is_not_inverse"] = inv
    if float(np.max(np.abs(np.asarray(xb[-1], dtype=float) - x0))) > 1e-7: bad[name + "_backward_state"] = float(np.max(np.abs(np.asarray(xb[-1], dtype=float) - x0)))
o = sysm.get_libration_point(1).create_orbit("halo", amplitude_z=0.03, zenith="northern"); o.correct(); T = float(o.period)
M = np.asarray(o.monodromy, dtype=float)
_, _, PhiT, _ = _compute_stm(var, o.initial_state, T, steps=2000, forward=1)
dM = float(np.max(np.abs(M - np.asarray(PhiT, dtype=float))) / float(np.max(np.abs(M))))
if dM > 1e-6: bad["monodromy_is_not_the_forward_stm_over_one_period"] = dM
from hiten.system.orbits.base import GenericOrbit
g = GenericOrbit(sysm.get_libration_point(1), initial_state=np.array([0.83, 0.02, 0.05, 0.01, 0.12, -0.03])); g.period = 0.9      # no symmetry to exploit
Mg = np.asarray(g.monodromy, dtype=float)
_, _, PhiG, _ = _compute_stm(var, g.initial_state, 0.9, steps=2000, forward=1)
dG = float(np.max(np.abs(Mg - np.asarray(PhiG, dtype=float))) / float(np.max(np.abs(Mg))))
if dG > 1e-6: bad["monodromy_of_an_asymmetric_arc_is_not_the_forward_stm_over_its_period"] = dG
w = np.linalg.eigvals(M)
if float(np.min(np.abs(w - 1.0))) > 1e-3: bad["monodromy_has_no_unit_eigenvalue"] = float(np.min(np.abs(w - 1.0)))
_verdict(bool(bad), **bad)
'''


def main():
    chk = Check(PID)
    chk.default_replay = _replay_general
    import hiten.algorithms.dynamics.rtbp as rtbp
    import hiten.algorithms.dynamics.base as dbase
    import hiten.algorithms.integrators.rk as rk
    import hiten.algorithms.integrators.base as ibase
    from hiten.algorithms.types.services import orbits as svc_orb

    X, mu = state_vars()
    ex = Explorer()
    domain(ex, X, mu)
    st, m = ex.check([], ())
    if st != 'sat':
        chk.vacuous('C03/domain', str(st))
    else:
        chk.vacuity_witness('C03/domain', model_to_env(m))
    chk.bound(mu='(0,1/2] symbolic', state='all states with r1,r2 > 1e-3', Phi='36 symbolic entries',
              direction='forward in {+1,-1}', methods='fixed / adaptive dispatch of _propagate_dynsys (integrator stubbed)')
    chk.assume('0 < mu <= 1/2', 'r1, r2 > 1e-3', 'time span tf >= 1e-3 (the zero-span short-circuit of the propagator is decided in C10)',
               'the integrator is replaced by a stub that records the right-hand side it is given (its accuracy is C02)')
    chk.out_of_scope('closeness of the numerically integrated Phi to the exact one (C02)',
                     'eigenvalue pairing heuristic _compute_nu_from_eigvals (LAPACK ordering is not a documented contract)')
    chk.trust('variational-equation theorem: Phi\' = Df(x(t)) Phi, Phi(0)=I  =>  Phi(t) = d x(t)/d x0',
              'Liouville: F^T Omega + Omega F = 0 for all states  =>  Phi^T Omega Phi = Omega, det Phi = 1, reciprocal eigenvalue pairs',
              'time reversal: the flow for forward=-1 is generated by -f, hence its STM by -F')
    chk.encode(rtbp._crtbp_accel, rtbp._jacobian_crtbp, rtbp._var_equations, rtbp._compute_stm, rtbp._compute_monodromy,
               dbase._DirectedSystem._build_rhs_impl, dbase._propagate_dynsys, svc_orb._OrbitDynamicsService.compute_stability)

    with explore.activate(ex):
        f = rtbp._crtbp_accel(np.array(X), mu)
        F = rtbp._jacobian_crtbp(X[0], X[1], X[2], mu)

    # (1) the Phi block is advanced with the derivative of the very field that advances the state
    Phi = [[W.var('P%d%d' % (i, j)) for j in range(6)] for i in range(6)]
    y42 = np.array([Phi[i][j] for i in range(6) for j in range(6)] + X)
    with explore.activate(ex):
        d42 = rtbp._var_equations(Sym.const(0), y42, mu)
    ref42 = []
    for k in range(42):
        if k < 36:
            i, j = divmod(k, 6)
            r = Sym.const(0)
            for l in range(6):
                r = r + Sym.lift(f[i]).diff(X[l]) * Phi[l][j]
        else:
            r = Sym.lift(f[k - 36])
        ref42.append(r)
        v, m, info = prove_zero(ex, Sym.lift(d42[k]) - r)
        oid = 'C03/(1)variational-rhs/component %d' % k
        if v == 'unsat':
            chk.ok(oid, info.get('by', ''))
        elif v == 'sat':
            from harness.C01 import fd_replay_vareq
            env = model_to_env(m)
            chk.fail(oid, 'variational rhs component %d differs from Df*Phi / f at %s' % (k, fmt_env(env, NAMES + ['mu'])), fd_replay_vareq(env, k), env)
        else:
            chk.unknown(oid, str(v))

    # (2),(3): run the real _compute_stm -> _propagate_dynsys -> _DirectedSystem with a recording integrator
    recorded = {}

    class _RecIntegrator:
        def __init__(self, *a, **k):
            recorded['ctor'] = (a, k)

        def integrate(self, system, y0, t_vals, **kw):
            recorded['system'] = system
            recorded['y0'] = y0
            recorded['t_vals'] = t_vals
            with explore.activate(ex):
                recorded['rhs'] = system.rhs(Sym.const(0), y42)
            n = len(t_vals)
            states = np.zeros((n, len(y0)))
            states[0, :] = y0
            for r_ in range(1, n):
                for c_ in range(len(y0)):
                    states[r_, c_] = W.var('Y%d_%d' % (r_, c_))
            recorded['states'] = states
            return ibase._Solution(times=t_vals, states=states)

    saved = (rk.AdaptiveRK, rk.RungeKutta)
    rk.AdaptiveRK = _RecIntegrator
    rk.RungeKutta = _RecIntegrator
    tf = W.var('T')
    ex.assume(_pos(ex, tf))
    try:
        for forward in (1, -1):
            for method in ('adaptive', 'fixed'):
                dbase._DirectedSystem._rhs_cache.clear()
                recorded.clear()
                vs = rtbp.variational_dynsys(mu)
                with explore.activate(ex):
                    xs, times, phi_T, PHI = rtbp._compute_stm(vs, np.array(X), tf, steps=3, forward=forward, method=method)
                tag = 'forward=%+d/%s' % (forward, method)
                # initial condition
                y0 = recorded['y0']
                bad = []
                for k in range(36):
                    i, j = divmod(k, 6)
                    if not _is(ex, Sym.lift(y0[k]) - (1 if i == j else 0)):
                        bad.append(k)
                for k in range(6):
                    if not _is(ex, Sym.lift(y0[36 + k]) - X[k]):
                        bad.append(36 + k)
                if bad:
                    chk.fail('C03/(2)initial-condition/' + tag, 'PHI0 is not (vec(I), x0): components %s' % bad, None)
                else:
                    chk.ok('C03/(2)initial-condition/' + tag, 'PHI0[:36]=vec(I) row-major, PHI0[36:]=x0')
                # extraction
                okx = all(_is(ex, Sym.lift(phi_T[i, j]) - recorded['states'][-1, 6 * i + j]) for i in range(6) for j in range(6))
                okx = okx and all(_is(ex, Sym.lift(xs[r_, c_]) - recorded['states'][r_, 36 + c_]) for r_ in range(3) for c_ in range(6))
                (chk.ok if okx else (lambda o, d: chk.fail(o, d, None)))('C03/(2)extraction/' + tag, 'phi_T[i,j] = final PHI[6i+j] (same row-major layout as the rhs), x = PHI[:,36:42]')
                # time grid handed to the integrator and returned times
                okt = _is(ex, Sym.lift(recorded['t_vals'][0])) and _is(ex, Sym.lift(recorded['t_vals'][-1]) - tf) and \
                    all(_is(ex, Sym.lift(times[r_]) - forward * Sym.lift(recorded['t_vals'][r_])) for r_ in range(3))
                (chk.ok if okt else (lambda o, d: chk.fail(o, d, None)))('C03/(2)time-grid/' + tag, 'integrates over [0, tf]; returned times = forward * grid')
                # (3) direction of the whole 42-vector
                rhs = recorded['rhs']
                worst = None
                for k in range(42):
                    v, m, info = prove_zero(ex, Sym.lift(rhs[k]) - forward * ref42[k])
                    oid = 'C03/(3)direction/%s/component %d' % (tag, k)
                    if v == 'unsat':
                        chk.ok(oid, 'directed rhs component = %+d * variational rhs' % forward, nontrivial=(forward == -1))
                    elif v == 'sat':
                        worst = (oid, k, model_to_env(m)) if worst is None else worst
                        chk.obl.append({'id': oid, 'verdict': 'sat', 'detail': 'directed rhs component %d has the wrong sign for forward=%d' % (k, forward)})
                    else:
                        chk.unknown(oid, str(v))
                if worst is not None:
                    oid, k, env = worst
                    chk.obl = [o for o in chk.obl if not (o['id'].startswith('C03/(3)direction/%s/' % tag) and o['verdict'] == 'sat')]
                    chk.fail('C03/(3)direction/%s' % tag,
                             'for forward=%d the STM block is advanced with +F*Phi along the reversed orbit (only the state block is negated; first bad component %d): '
                             'the returned matrix is not the derivative of the backward flow' % (forward, k),
                             replay_direction(env, k, forward), env)
    finally:
        rk.AdaptiveRK, rk.RungeKutta = saved

    # (4) infinitesimal symplecticity  F^T Omega + Omega F = 0,  Omega = [[-2K, I], [-I, 0]], K = e_x ^ e_y
    Om = [[Sym.const(0)] * 6 for _ in range(6)]
    Om = [[Sym.const(0) for _ in range(6)] for _ in range(6)]
    for i in range(3):
        Om[i][3 + i] = Sym.const(1)
        Om[3 + i][i] = Sym.const(-1)
    # omega = sum dq_i^dp_i with p = (vx - y, vy + x, vz)  =  sum dr_i^dv_i - 2 dx^dy
    Om[0][1] = Sym.const(-2)
    Om[1][0] = Sym.const(2)
    for i in range(6):
        for j in range(6):
            r = Sym.const(0)
            for k in range(6):
                r = r + Sym.lift(F[k, i]) * Om[k][j] + Om[i][k] * Sym.lift(F[k, j])
            v, m, info = prove_zero(ex, r)
            oid = 'C03/(4)symplectic/(F^T Omega + Omega F)[%d,%d]' % (i, j)
            if v == 'unsat':
                chk.ok(oid, info.get('by', ''))
            elif v == 'sat':
                env = model_to_env(m)
                chk.fail(oid, 'the linearisation is not infinitesimally symplectic at %s' % fmt_env(env, NAMES + ['mu']), '''
from hiten.algorithms.dynamics.rtbp import _jacobian_crtbp
s = %r; mu = %r
F = _jacobian_crtbp(s[0], s[1], s[2], mu)
Om = np.zeros((6, 6)); Om[:3, 3:] = np.eye(3); Om[3:, :3] = -np.eye(3); Om[0, 1] = -2.0; Om[1, 0] = 2.0
R = F.T @ Om + Om @ F
_verdict(np.max(np.abs(R)) > 1e-9, residual=float(np.max(np.abs(R))))
''' % ([float(env[k]) for k in NAMES], float(env['mu'])), env)
            else:
                chk.unknown(oid, str(v))

    # (5) the velocity vector solves the variational equation:  F f = sum_j df/dx_j f_j
    for i in range(6):
        lhs = Sym.const(0)
        rhs_ = Sym.const(0)
        for j in range(6):
            lhs = lhs + Sym.lift(F[i, j]) * Sym.lift(f[j])
            rhs_ = rhs_ + Sym.lift(f[i]).diff(X[j]) * Sym.lift(f[j])
        v, m, info = prove_zero(ex, lhs - rhs_)
        (chk.ok if v == 'unsat' else chk.unknown)('C03/(5)velocity-vector/(F f)[%d] = (Df f)[%d]' % (i, i), info.get('by', ''))

    # (6) services hand the orbit's own state and period to _compute_stm / _compute_monodromy
    calls = []
    saved2 = (svc_orb._compute_stm, svc_orb._compute_monodromy)

    def fake_stm(dynsys, x0, tf_, *a, **k):
        calls.append(('stm', dynsys, x0, tf_, a, k))
        return ('x', 't', 'PHI_T', 'PHI')

    def fake_mono(dynsys, x0, tf_):
        calls.append(('mono', dynsys, x0, tf_))
        return 'MONO'

    class _LB:
        def stability_indices(self, Phi_):
            calls.append(('linalg', Phi_))
            return ('idx', 'vals', 'vecs')
    svc_orb._compute_stm, svc_orb._compute_monodromy = fake_stm, fake_mono
    saved_lb = svc_orb._LinalgBackend
    svc_orb._LinalgBackend = _LB
    try:
        per = W.var('period')
        sv = np.array(X)
        o = Stub(initial_state=sv, period=per, var_dynsys='VARSYS', make_key=lambda *a: a, get_or_create=lambda key, fac: fac(), _stability_info=None)
        mono = svc_orb._OrbitDynamicsService.__dict__['monodromy'].fget(o)
        stab = svc_orb._OrbitDynamicsService.compute_stability(o)
        ok6 = (mono == 'MONO' and calls[0][0] == 'mono' and calls[0][1] == 'VARSYS' and calls[0][2] is sv and calls[0][3] is per
               and calls[1][0] == 'stm' and calls[1][1] == 'VARSYS' and calls[1][2] is sv and calls[1][3] is per and not calls[1][4] and not calls[1][5]
               and calls[2] == ('linalg', 'PHI_T') and stab == ('idx', 'vals', 'vecs'))
        (chk.ok if ok6 else (lambda o_, d: chk.fail(o_, d, None)))('C03/(6)services', 'monodromy/compute_stability call the STM routine with the orbit\'s own variational system, initial state and period (forward, default method) and return its result')
    finally:
        svc_orb._compute_stm, svc_orb._compute_monodromy = saved2
        svc_orb._LinalgBackend = saved_lb
    # _compute_monodromy = phi_T of _compute_stm over one period
    saved3 = rtbp._compute_stm
    rtbp._compute_stm = lambda dynsys, x0, period, *a, **k: ('x', 't', ('PHI_T', dynsys, x0, period, a, tuple(k.items())), 'PHI')
    try:
        r = rtbp._compute_monodromy('D', 'X0', 'P')
        okm = r == ('PHI_T', 'D', 'X0', 'P', (), ())
        (chk.ok if okm else (lambda o_, d: chk.fail(o_, d, None)))('C03/(6)monodromy=STM over one period, forward', repr(r))
    finally:
        rtbp._compute_stm = saved3

    # translator validation: _DirectedSystem rhs on the compiled build
    r = rng(chk, 3)
    vals = {n: round(r.uniform(-0.5, 0.5), 3) for n in NAMES}
    vals['x'] = 0.6
    vals['mu'] = 0.0121
    envq = dict(vals)
    phi_vals = [round(r.uniform(-1, 1), 3) for _ in range(36)]
    for i in range(6):
        for j in range(6):
            envq['P%d%d' % (i, j)] = phi_vals[6 * i + j]
    cases = []
    for forward in (1, -1):
        dbase._DirectedSystem._rhs_cache.clear()
        vs = rtbp.variational_dynsys(mu)
        ds = dbase._DirectedSystem(vs, forward, flip_indices=_stm_flip(rtbp))
        with explore.activate(ex):
            out = ds.rhs(Sym.const(0), y42)
        cases.append(('_DirectedSystem(var_eq, %d).rhs' % forward,
                      '_DirectedSystem(variational_dynsys(%r), %d, flip_indices=%s).rhs(0.0, np.array(%r))' % (vals['mu'], forward, _flip_repr(_stm_flip(rtbp)), phi_vals + [vals[n] for n in NAMES]),
                      [Sym.lift(e).evalf(envq) for e in out], vals))
    errs = validate.compare(chk, 'from hiten.algorithms.dynamics.rtbp import variational_dynsys\nfrom hiten.algorithms.dynamics.base import _DirectedSystem', cases)
    for name, err, expr in errs:
        chk.inconclusive.append('real build raised in validation of %s: %s' % (name, err))
    chk.absorb(ex)
    return chk.finish()


def _stm_flip(rtbp):
    """flip_indices that _compute_stm currently passes (read from a recording call)."""
    import hiten.algorithms.dynamics.rtbp as r
    got = {}
    saved = r._propagate_dynsys

    def rec(**k):
        got.update(k)
        raise _Stop()
    r._propagate_dynsys = rec
    try:
        try:
            r._compute_stm(None, [0] * 6, 1.0)
        except _Stop:
            pass
    finally:
        r._propagate_dynsys = saved
    return got.get('flip_indices')


class _Stop(Exception):
    pass


def _flip_repr(fl):
    if isinstance(fl, slice):
        return 'slice(%r, %r, %r)' % (fl.start, fl.stop, fl.step)
    return repr(fl)


def _pos(ex, v):
    from fractions import Fraction
    with explore.activate(ex):
        return v >= Fraction(1, 1000)


def _is(ex, residual):
    v, m, info = prove_zero(ex, residual)
    return v == 'unsat'


if __name__ == '__main__':
    sys.exit(main())

"""C19 — reported connections are geometrically and kinematically what they claim."""
from __future__ import annotations

import sys
from fractions import Fraction

from harness.common import *  # noqa: F401,F403
from harness.common import np, Explorer, Check, Sym, W, prove_zero, model_to_env, fmt_env, validate, rng, explore, And, Or, Not, Implies, opaque

PID = 'C19'


def le(a, b):
    return Sym.lift(a) <= b


def ge(a, b):
    return Sym.lift(a) >= b


def closest_points(chk, cb, tier):
    names = 'a0x a0y a1x a1y b0x b0y b1x b1y'.split()
    V = W.vars(names)
    ex = Explorer(max_paths=400)
    chk.encode(cb._closest_points_on_segments_2d)
    a0x, a0y, a1x, a1y, b0x, b0y, b1x, b1y = V
    ux, uy, vx, vy = a1x - a0x, a1y - a0y, b1x - b0x, b1y - b0y
    wx, wy = a0x - b0x, a0y - b0y
    A, B, C = ux * ux + uy * uy, ux * vx + uy * vy, vx * vx + vy * vy
    D, E = ux * wx + uy * wy, vx * wx + vy * wy
    # convexity lemma (Lagrange identity): A*C - B^2 = (ux*vy - uy*vx)^2 >= 0
    v, m, info = prove_zero(ex, A * C - B * B - (ux * vy - uy * vx) ** 2)
    (chk.ok if v == 'unsat' else chk.unknown)('C19/(4)closest-points/convexity lemma AC-B^2=(u x v)^2', info.get('by', ''))
    chk.trust('KKT conditions are sufficient for global optimality of a convex quadratic over a box (Hessian [[A,-B],[-B,C]] is PSD by the discharged Lagrange identity)')

    paths = ex.run(lambda: cb._closest_points_on_segments_2d(*V))
    st = chk.absorb(ex)
    chk.note('closest points: %d paths, %d feasibility queries' % (st['paths'], st['queries']))
    if not paths:
        chk.vacuous('C19/(4)', 'no path')
    nviol = 0
    for n, p in enumerate(paths):
        if p.exc is not None:
            chk.unknown('C19/(4)closest-points/path %d' % n, 'path raised %r' % (p.exc,))
            continue
        s, t, px, py, qx, qy = [Sym.lift(e) for e in p.value]
        gs = A * s - B * t + D          # 1/2 d/ds |P(s)-Q(t)|^2
        gt = C * t - B * s - E          # 1/2 d/dt
        prev = explore._CUR[0]
        explore._CUR[0] = None
        try:
            goal = [ge(s, 0), le(s, 1), ge(t, 0), le(t, 1),
                    Implies(s > 0, le(gs, 0)), Implies(s < 1, ge(gs, 0)),
                    Implies(t > 0, le(gt, 0)), Implies(t < 1, ge(gt, 0)),
                    (px - (a0x + s * ux)) == 0, (py - (a0y + s * uy)) == 0,
                    (qx - (b0x + t * vx)) == 0, (qy - (b0y + t * vy)) == 0]
        finally:
            explore._CUR[0] = prev
        v, m, _k = ex.prove_all(p, goal)
        oid = 'C19/(4)closest-points/path %d [%s]' % (n, ''.join('T' if d else 'F' for d in p.decisions))
        if v == 'unsat':
            chk.ok(oid, 'returned (s,t) in [0,1]^2 satisfies the KKT conditions of min |P(s)-Q(t)|^2; P,Q are the points at s,t',
                   sample={'decisions': p.decisions, 's': repr(s)[:120], 't': repr(t)[:120]} if n in (0, 5) else None)
        elif v == 'sat':
            env = model_to_env(m)
            nviol += 1
            if nviol > 3:
                chk.obl.append({'id': oid, 'verdict': 'sat', 'detail': 'same defect class as the first replayed paths (den <= 0); not replayed separately'})
                chk.inconclusive.append(oid + ': more than 3 violating paths; fix the first ones')
                continue
            chk.fail(_known_alias(oid), 'returned parameters are not the closest points of the two segments for %s' % fmt_env(env, names), '''
from hiten.algorithms.connections.backends import _closest_points_on_segments_2d
a = %r
s, t, px, py, qx, qy = _closest_points_on_segments_2d(*a)
d_ret = (px - qx)**2 + (py - qy)**2
g = np.linspace(0.0, 1.0, 801)
S, T = np.meshgrid(g, g, indexing='ij')
PX = a[0] + S*(a[2]-a[0]); PY = a[1] + S*(a[3]-a[1]); QX = a[4] + T*(a[6]-a[4]); QY = a[5] + T*(a[7]-a[5])
d_min = float(np.min((PX-QX)**2 + (PY-QY)**2))
_verdict(d_ret > d_min + 1e-9 * max(1.0, d_min) or not (0 <= s <= 1 and 0 <= t <= 1), returned=(float(s), float(t)), dist2_returned=float(d_ret), dist2_bruteforce=d_min)
''' % ([float(env[k]) for k in names],), env)
        else:
            chk.unknown(oid, 'solver %s' % v)
    return V


def _known_alias(oid):
    return oid


def radpairs(chk, cb, n_q, n_r):
    q = [[W.var('q%d%s' % (i, c)) for c in 'xy'] for i in range(n_q)]
    r = [[W.var('r%d%s' % (j, c)) for c in 'xy'] for j in range(n_r)]
    rad = W.var('radius')
    ex = Explorer(max_paths=3000)
    with explore.activate(ex):
        ex.assume(rad >= 0)
    qa, ra = np.array(q), np.array(r)
    paths = ex.run(lambda: cb._radpair2d(qa, ra, rad))
    chk.absorb(ex)
    chk.encode(cb._radpair2d, cb._pair_counts, cb._exclusive_prefix_sum)
    for n, p in enumerate(paths):
        oid = 'C19/(1)radius-pairs/%dx%d/path %d' % (n_q, n_r, n)
        if p.exc is not None:
            chk.fail(oid, 'raised %r' % (p.exc,), None)
            continue
        pairs = [tuple(int(x) for x in row) for row in p.value]
        conds = []
        for i in range(n_q):
            for j in range(n_r):
                d2 = (q[i][0] - r[j][0]) ** 2 + (q[i][1] - r[j][1]) ** 2
                inside = d2 <= rad * rad
                conds.append(inside if (i, j) in pairs else Not(inside))
        structural = len(set(pairs)) == len(pairs) and all(0 <= a < n_q and 0 <= b < n_r for a, b in pairs)
        v, m = ex.prove(p, And(*conds)) if structural else ('sat', None)
        if v == 'unsat':
            chk.ok(oid, 'pairs %s = exactly the (i,j) with d^2 <= r^2, each once' % (pairs,), sample={'pairs': pairs} if n == 1 else None)
        elif v == 'sat':
            env = model_to_env(m) if m is not None else {}
            chk.fail(oid, 'returned pairs %s are not exactly the in-radius pairs' % (pairs,), '''
from hiten.algorithms.connections.backends import _radpair2d
q = np.array(%r, dtype=float); r = np.array(%r, dtype=float); rad = %r
got = sorted(map(tuple, _radpair2d(q, r, rad).tolist()))
want = sorted((i, j) for i in range(len(q)) for j in range(len(r)) if (q[i,0]-r[j,0])**2 + (q[i,1]-r[j,1])**2 <= rad*rad)
_verdict(got != want, got=got, want=want)
''' % ([[float(env.get('q%d%s' % (i, c), 0)) for c in 'xy'] for i in range(n_q)],
                [[float(env.get('r%d%s' % (j, c), 0)) for c in 'xy'] for j in range(n_r)], float(env.get('radius', 1))), env)
        else:
            chk.unknown(oid, v)
    return len(paths)


def backend_run(chk, cb, n, m_, budget):
    """The real _ConnectionsBackend.run on symbolic clouds; closest-point routine abstracted by its contract
    (decided separately in (4)); everything else (radius pairs, mutual-nearest filter, refinement glue, delta-v,
    labelling, sort) is the real code."""
    from hiten.algorithms.connections.types import ConnectionsBackendRequest
    pu = [[W.var('u%d%s' % (i, c)) for c in 'xy'] for i in range(n)]
    ps = [[W.var('s%d%s' % (j, c)) for c in 'xy'] for j in range(m_)]
    Xu = [[W.var('U%d_%d' % (i, k)) for k in range(6)] for i in range(n)]
    Xs = [[W.var('S%d_%d' % (j, k)) for k in range(6)] for j in range(m_)]
    eps, dv_tol, bal_tol = W.vars('eps dv_tol bal_tol')
    ex = Explorer(max_paths=6000, time_budget_s=budget, max_decisions=200)
    with explore.activate(ex):
        ex.assume(eps > 0)
        ex.assume(dv_tol >= 0)
        ex.assume(bal_tol >= 0)
        for row in pu + ps:
            for c in row:
                ex.assume_box(c, -10, 10)
    # every comparison of the filter logic is linear in the pairwise squared distances: abstract them
    pts = [('u%d' % i, pu[i]) for i in range(n)] + [('s%d' % j, ps[j]) for j in range(m_)]
    for a in range(len(pts)):
        for b in range(a + 1, len(pts)):
            ex.abstract((pts[a][1][0] - pts[b][1][0]) ** 2 + (pts[a][1][1] - pts[b][1][1]) ** 2, 'd2_%s_%s' % (pts[a][0], pts[b][0]))
    ex.free_atoms = 'sqrt'   # |v_u - v_s| of free symbolic states is an arbitrary non-negative real
    calls = []

    def cp_stub(a0x, a0y, a1x, a1y, b0x, b0y, b1x, b1y):
        k = len(calls)
        args = (a0x, a0y, a1x, a1y, b0x, b0y, b1x, b1y)
        s = opaque('cp_s', *args)
        t = opaque('cp_t', *args)
        calls.append((args, s, t))
        return (s, t, a0x + s * (a1x - a0x), a0y + s * (a1y - a0y), b0x + t * (b1x - b0x), b0y + t * (b1y - b0y))

    saved = cb._closest_points_on_segments_2d
    cb._closest_points_on_segments_2d = cp_stub
    req = ConnectionsBackendRequest(points_u=np.array(pu), points_s=np.array(ps), states_u=np.array(Xu), states_s=np.array(Xs),
                                    traj_indices_u=None, traj_indices_s=None, eps=eps, dv_tol=dv_tol, bal_tol=bal_tol)
    be = cb._ConnectionsBackend()

    def go():
        del calls[:]
        resp = be.run(req)
        return resp.results, list(calls)
    try:
        paths = ex.run(go)
    finally:
        cb._closest_points_on_segments_2d = saved
    chk.encode(cb._ConnectionsBackend.run, cb._refine_pairs_on_section, cb._nearest_neighbor_2d_numba)
    nres = 0
    for k, p in enumerate(paths):
        oid = 'C19/(2,3)backend.run/%dx%d/path %d' % (n, m_, k)
        if p.exc is not None:
            if isinstance(p.exc, explore.PathAbort):
                continue
            chk.fail(oid, 'raised %r' % (p.exc,), None)
            continue
        results, cps = p.value
        goals = []
        _act = explore.activate(ex)
        _act.__enter__()
        d2 = lambda i, j: (pu[i][0] - ps[j][0]) ** 2 + (pu[i][1] - ps[j][1]) ** 2
        prev_dv = None
        struct_ok = True
        for r in results:
            nres += 1
            i, j = r.index_u, r.index_s
            goals.append(d2(i, j) <= eps * eps)
            for j2 in range(m_):
                if j2 != j:
                    goals.append(Or(d2(i, j) <= d2(i, j2), d2(i, j2) > eps * eps))
            for i2 in range(n):
                if i2 != i:
                    goals.append(Or(d2(i, j) <= d2(i2, j), d2(i2, j) > eps * eps))
            dvv = Sym.lift(r.delta_v)
            su, ss = r.state_u, r.state_s
            dv2 = sum(((Sym.lift(su[3 + c]) - ss[3 + c]) ** 2 for c in range(3)), Sym.const(0))
            goals.append((dvv * dvv - dv2) == 0)
            goals.append(dvv >= 0)
            goals.append(dvv <= dv_tol)
            goals.append((dvv <= bal_tol) if r.kind == 'ballistic' else Not(dvv <= bal_tol))
            if r.kind not in ('ballistic', 'impulsive'):
                struct_ok = False
            if prev_dv is not None:
                goals.append(prev_dv <= dvv)
            prev_dv = dvv
            # reported states/point: either the raw pair, or the segment interpolation at the closest-point parameters
            raw = all(_same(su[c], Xu[i][c]) and _same(ss[c], Xs[j][c]) for c in range(6))
            if raw:
                if not (_same(r.point2d[0], pu[i][0]) and _same(r.point2d[1], pu[i][1])):
                    struct_ok = False
            else:
                hit = False
                for args, s, t in cps:
                    # which neighbours were used is read off the stub call
                    if _same(args[0], pu[i][0]) and _same(args[1], pu[i][1]) and _same(args[4], ps[j][0]) and _same(args[5], ps[j][1]):
                        iu = [a for a in range(n) if _same(args[2], pu[a][0]) and _same(args[3], pu[a][1])]
                        js = [b for b in range(m_) if _same(args[6], ps[b][0]) and _same(args[7], ps[b][1])]
                        if iu and js:
                            okst = all(_same(su[c], (1 - s) * Xu[i][c] + s * Xu[iu[0]][c]) and _same(ss[c], (1 - t) * Xs[j][c] + t * Xs[js[0]][c]) for c in range(6))
                            px, py = args[0] + s * (args[2] - args[0]), args[1] + s * (args[3] - args[1])
                            qx, qy = args[4] + t * (args[6] - args[4]), args[5] + t * (args[7] - args[5])
                            okpt = _same(r.point2d[0], (px + qx) / 2) and _same(r.point2d[1], (py + qy) / 2)
                            hit = hit or (okst and okpt)
                if not hit:
                    struct_ok = False
        _act.__exit__()
        if not struct_ok:
            chk.fail(oid, 'a reported result is neither the raw pair nor the interpolation/midpoint at the closest-point parameters of its own segments', None)
            continue
        if not results:
            chk.ok(oid, 'no connection reported on this path', nontrivial=False)
            continue
        v, m, _k = ex.prove_all(p, goals)
        if v == 'unsat':
            chk.ok(oid, '%d result(s): mutual nearest within eps, delta_v = |v_u - v_s| of the reported states <= dv_tol, label <=> bal_tol, sorted, midpoint' % len(results),
                   sample={'indices': [(r.index_u, r.index_s, r.kind) for r in results]} if k < 40 and len(results) > 1 else None)
        elif v == 'sat':
            env = model_to_env(m)
            # the solver saw the pairwise squared distances as free reals: the model's coordinates need not realise them. Alternatives:
            # (a) the model's coordinates, (b) a planar cloud fitted to the model's distances, (c) clustered random clouds (same oracle)
            bodies = [_run_replay(env, n, m_)]
            env2 = _realise_cloud(ex, m, env, n, m_)
            if env2 is not None:
                bodies.append(_run_replay(env2, n, m_))
            bodies.append(_run_replay_random(n, m_))
            chk.fail(oid, 'a reported connection violates its contract', bodies, env)
        else:
            chk.unknown(oid, v)
    st = chk.absorb(ex)
    chk.note('backend.run %dx%d: %d paths, %d reported results checked' % (n, m_, st['paths'], nres))


def _same(a, b):
    from engine.sym import is_zero_syntactic
    return is_zero_syntactic(Sym.lift(a) - Sym.lift(b))


def _run_replay(env, n, m_):
    g = lambda k: float(env.get(k, 0))
    return '''
from hiten.algorithms.connections.backends import _ConnectionsBackend
from hiten.algorithms.connections.types import ConnectionsBackendRequest
pu = np.array(%r); ps = np.array(%r); Xu = np.array(%r); Xs = np.array(%r)
eps, dv_tol, bal_tol = %r, %r, %r
res = _ConnectionsBackend().run(ConnectionsBackendRequest(pu, ps, Xu, Xs, None, None, eps, dv_tol, bal_tol)).results
bad = []
prev = -1.0
for r in res:
    i, j = r.index_u, r.index_s
    d2 = lambda a, b: float(np.sum((pu[a] - ps[b])**2))
    if d2(i, j) > eps*eps: bad.append('outside radius')
    if any(d2(i, b) < d2(i, j) for b in range(len(ps)) if b != j): bad.append('not nearest for u')
    if any(d2(a, j) < d2(i, j) for a in range(len(pu)) if a != i): bad.append('not nearest for s')
    dv = float(np.linalg.norm(r.state_u[3:6] - r.state_s[3:6]))
    if abs(dv - r.delta_v) > 1e-12: bad.append('delta_v is not the mismatch of the reported states')
    if r.delta_v > dv_tol: bad.append('delta_v above limit')
    if (r.kind == 'ballistic') != (r.delta_v <= bal_tol): bad.append('label')
    if r.delta_v < prev: bad.append('order')
    prev = r.delta_v
_verdict(bool(bad), problems=bad, n_results=len(res))
''' % ([[g('u%d%s' % (i, c)) for c in 'xy'] for i in range(n)], [[g('s%d%s' % (j, c)) for c in 'xy'] for j in range(m_)],
       [[g('U%d_%d' % (i, k)) for k in range(6)] for i in range(n)], [[g('S%d_%d' % (j, k)) for k in range(6)] for j in range(m_)],
       g('eps'), g('dv_tol'), g('bal_tol'))


def _realise_cloud(ex, m, env, n, m_):
    """Planar points whose pairwise squared distances are (as nearly as possible) the values the model gave to the abstracted
    distances; the cross distances u_i - s_j are weighted most (they are what the filter compares)."""
    try:
        import numpy as rnp
        from scipy.optimize import least_squares
        from engine.explore import z3val_to_fraction
        want = {}
        for P, T in ex.abstract_basis:
            nm = str(T)
            if nm.startswith('d2_'):
                want[tuple(nm[3:].split('_'))] = float(z3val_to_fraction(m.eval(T, model_completion=True), 30))
        names = ['u%d' % i for i in range(n)] + ['s%d' % j for j in range(m_)]
        idx = {a: k for k, a in enumerate(names)}
        cross = [(idx[a], idx[b], v, 1.0 if a[0] != b[0] else 0.05) for (a, b), v in want.items() if a in idx and b in idx]
        if not cross:
            return None

        def res(x):
            p = x.reshape(-1, 2)
            return rnp.array([w * (float(rnp.sum((p[a] - p[b]) ** 2)) - v) for a, b, v, w in cross])
        rs = rnp.random.default_rng(19)
        scale = max(1e-6, max(v for _, _, v, _ in cross)) ** 0.5
        best = None
        for _ in range(40):
            r = least_squares(res, rs.normal(size=2 * len(names)) * scale)
            if best is None or r.cost < best.cost:
                best = r
        p = best.x.reshape(-1, 2)
        env2 = dict(env)
        for a, k in idx.items():
            env2[a + 'x'], env2[a + 'y'] = float(p[k, 0]), float(p[k, 1])
        return env2
    except Exception:
        return None


def _run_replay_random(n, m_):
    """The same oracle as _run_replay on clustered random clouds (several candidates inside the radius for one point)."""
    return '''
from hiten.algorithms.connections.backends import _ConnectionsBackend
from hiten.algorithms.connections.types import ConnectionsBackendRequest
rs = np.random.default_rng(1919); bad = {}
for case in range(60):
    nu, ns = int(rs.integers(2, 7)), int(rs.integers(2, 7))
    centres = rs.normal(size=(2, 2))
    pu = centres[rs.integers(0, 2, nu)] + 0.05 * rs.normal(size=(nu, 2)); ps = centres[rs.integers(0, 2, ns)] + 0.05 * rs.normal(size=(ns, 2))
    Xu = rs.normal(size=(nu, 6)); Xs = rs.normal(size=(ns, 6)); Xu[:, 3:] *= 0.01; Xs[:, 3:] *= 0.01
    eps, dv_tol, bal_tol = 0.2, 0.05, 0.01
    res = _ConnectionsBackend().run(ConnectionsBackendRequest(pu, ps, Xu, Xs, None, None, eps, dv_tol, bal_tol)).results
    prev = -1.0
    for r in res:
        i, j = r.index_u, r.index_s
        d2 = lambda a, b: float(np.sum((pu[a] - ps[b])**2))
        if d2(i, j) > eps*eps: bad["case%d_outside_radius" % case] = [i, j]
        if any(d2(i, b) < d2(i, j) for b in range(ns) if b != j): bad["case%d_not_nearest_for_u" % case] = [i, j]
        if any(d2(a, j) < d2(i, j) for a in range(nu) if a != i): bad["case%d_not_nearest_for_s" % case] = [i, j]
        dv = float(np.linalg.norm(r.state_u[3:6] - r.state_s[3:6]))
        if abs(dv - r.delta_v) > 1e-12: bad["case%d_delta_v" % case] = [dv, float(r.delta_v)]
        if r.delta_v > dv_tol: bad["case%d_above_limit" % case] = float(r.delta_v)
        if (r.kind == "ballistic") != (r.delta_v <= bal_tol): bad["case%d_label" % case] = [r.kind, float(r.delta_v)]
        if r.delta_v < prev: bad["case%d_order" % case] = [prev, float(r.delta_v)]
        prev = r.delta_v
_verdict(bool(bad), **{k: bad[k] for k in list(bad)[:6]})
'''


def _replay_general():
    """General confirmation on the compiled build: the closest-point routine against a dense brute-force search over both segment
    parameters (random, parallel, touching, crossing, degenerate and tiny segments), and the backend on random clouds against a
    plain re-statement of its filter (mutual nearest neighbours within the radius, velocity mismatch within tolerance, sorted by it)."""
    return '''
from hiten.algorithms.connections.backends import _closest_points_on_segments_2d
rs = np.random.default_rng(19); bad = {}
def brute(a0, a1, b0, b1, n=401):
    s = np.linspace(0, 1, n); P = a0[None, :] + s[:, None] * (a1 - a0)[None, :]; Q = b0[None, :] + s[:, None] * (b1 - b0)[None, :]
    d = np.linalg.norm(P[:, None, :] - Q[None, :, :], axis=2); return float(d.min())
cases = []
for scale in (1.0, 1e-3, 2.0 ** -15):
    for _ in range(40): cases.append(tuple(scale * rs.normal(size=2) for _ in range(4)))
    a0, a1 = scale * np.array([0.0, 0.0]), scale * np.array([1.0, 0.0])
    cases += [(a0, a1, a0 + scale * np.array([0.3, 0.5]), a1 + scale * np.array([0.6, 0.5])), (a0, a1, scale * np.array([2.0, 0.0]), scale * np.array([3.0, 0.0])), (a0, a1, a1, scale * np.array([1.0, 1.0])),
              (a0, a1, scale * np.array([0.5, -0.5]), scale * np.array([0.5, 0.5])), (a0, a0, scale * np.array([0.5, 0.5]), scale * np.array([0.5, 1.0])), (a0, a1, scale * np.array([0.2, 0.1]), scale * np.array([0.2, 0.1]))]
for i, (a0, a1, b0, b1) in enumerate(cases):
    s, t, px, py, qx, qy = [float(v) for v in _closest_points_on_segments_2d(a0[0], a0[1], a1[0], a1[1], b0[0], b0[1], b1[0], b1[1])][:6]
    got = float(np.hypot(px - qx, py - qy)); best = brute(a0, a1, b0, b1); size = max(float(np.linalg.norm(a1 - a0)), float(np.linalg.norm(b1 - b0)), 1e-300)
    on = np.hypot(px - (a0[0] + s * (a1[0] - a0[0])), py - (a0[1] + s * (a1[1] - a0[1]))) + np.hypot(qx - (b0[0] + t * (b1[0] - b0[0])), qy - (b0[1] + t * (b1[1] - b0[1])))
    if not (-1e-12 <= s <= 1 + 1e-12 and -1e-12 <= t <= 1 + 1e-12) or on > 1e-9 * size: bad["case_%d_parameters" % i] = [s, t, float(on)]
    elif got > best + 5e-3 * size: bad["case_%d_not_closest" % i] = "distance %.6g, a denser search finds %.6g" % (got, best)
_verdict(bool(bad), **{k: bad[k] for k in list(bad)[:6]})
'''


def main():
    chk = Check(PID)
    chk.default_replay = _replay_general
    import hiten.algorithms.connections.backends as cb
    thorough = chk.tier == 'thorough'
    chk.bound(closest_points='all 8 real coordinates, every path of the routine (no bound)',
              radius_pairs='clouds up to %s points' % ('2x3 and 3x2' if thorough else '2x3'),
              backend_run='clouds of %s points with 6-D states, radius and tolerances symbolic' % ('2x2' if thorough else '2x2'))
    chk.assume('coordinates of the section points in [-10, 10] (only used to rule out the 1e300 / 1e9 sentinels)',
               'in backend.run the pairwise squared distances and the velocity-mismatch norms enter the solver as free non-negative reals '
               '(over-approximation: every comparison the filter makes is linear in them; unsat answers remain valid for all clouds)',
               'in backend.run the closest-point routine is replaced by its contract (s,t uninterpreted); its own correctness is obligation group (4)')
    chk.out_of_scope('ties in float64 that are not ties over the reals', 'clouds larger than the stated sizes (the loops are uniform in the cloud size)')
    V = closest_points(chk, cb, chk.tier)
    radpairs(chk, cb, 2, 2)
    radpairs(chk, cb, 2, 3)
    if thorough:
        radpairs(chk, cb, 3, 2)     # (3x3 was tried: 104 feasibility queries `unknown`, so it is not claimed)
    backend_run(chk, cb, 2, 2, 600 if not thorough else 3000)
    # (a 3x2 cloud through backend.run was tried for the thorough tier: > 6000 paths and 75 min without completing, so it is not claimed)

    # translator validation
    r = rng(chk, 19)
    cases = []
    with explore.activate(Explorer()):
        pass
    for tcase in range(4):
        a = [r.randint(-8, 8) / 8.0 for _ in range(8)]    # dyadic: exact in float64 and in Q
        if tcase == 1:
            a[2], a[3] = a[0] + 0.5, a[1] + 0.25
            a[6], a[7] = a[4] + 1.0, a[5] + 0.5   # parallel
        ex2 = Explorer()
        out = ex2.run(lambda: cb._closest_points_on_segments_2d(*[Sym.const(Fraction(str(x))) for x in a]))
        cases.append(('_closest_points_on_segments_2d', '_closest_points_on_segments_2d(*%r)' % (a,), validate.flat(list(out[0].value)), a))
    errs = validate.compare(chk, 'from hiten.algorithms.connections.backends import _closest_points_on_segments_2d', cases)
    for name, err, expr in errs:
        chk.inconclusive.append('real build raised in validation of %s: %s' % (name, err))
    return chk.finish()


if __name__ == '__main__':
    sys.exit(main())

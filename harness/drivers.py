"""Shared machinery for the integrator *driver* harnesses (C10, C11, C17, C02-(5)).

The step kernels, the vector field, the event function and the step-size helper functions are replaced by
uninterpreted functions (with their contracts as solver constraints); the driver loops themselves are the
real code.  Loops are unwound up to `max_steps` kernel calls: a path needing more raises StopUnwinding and
its prefix (the recorded trace) is still checked.
"""
from __future__ import annotations

from contextlib import contextmanager
from fractions import Fraction

import z3

from engine import explore
from engine.explore import zvar, term_z3
from engine.sym import Sym, W, opaque
from engine import symnp as np


class StopUnwinding(Exception):
    pass


def aidx(v):
    (m, _), = v.t.items()
    return m[0][0]


def constrain(atom, lo=None, hi=None, lo_strict=False):
    """Attach range constraints to an opaque atom (Sym of a single atom)."""
    i = aidx(atom)
    cons = W.extra[i].setdefault('constraints', [])
    if cons:
        return atom
    if lo is not None:
        lz = term_z3(Sym.lift(lo))
        cons.append(zvar(i) > lz if lo_strict else zvar(i) >= lz)
    if hi is not None:
        cons.append(zvar(i) <= term_z3(Sym.lift(hi)))
    return atom


def vec(name, dim, *args):
    return np.array([opaque('%s_%d' % (name, i), *args) for i in range(dim)])


class Tracker:
    def __init__(self, dim, max_steps):
        self.dim = dim
        self.max_steps = max_steps
        self.reset()

    def reset(self):
        self.steps = []       # dicts: t, y, h, yh, err (and err5/err3), kind
        self.fcalls = []
        self.gcalls = []
        self.helpers = []
        self.refines = []
        self.dense = []

    def snapshot(self):
        return {'steps': list(self.steps), 'gcalls': list(self.gcalls), 'helpers': list(self.helpers), 'refines': list(self.refines), 'dense': list(self.dense)}


def flat_args(t, y, h=None):
    a = [Sym.lift(t)] + [Sym.lift(v) for v in np.asarray(y).reshape(-1)]
    if h is not None:
        a.append(Sym.lift(h))
    return a


@contextmanager
def stubbed(rkmod, tr, real_helpers=(), real_dense=True, real_refine=True, autonomous=True):
    """Replace kernels/field/helpers in the rk module by uninterpreted functions recording into `tr`."""
    dim = tr.dim
    saved = {}

    def setp(name, val):
        saved[name] = getattr(rkmod, name)
        setattr(rkmod, name, val)

    def f_generic(t, y):
        out = vec('F', dim, *[Sym.lift(v) for v in np.asarray(y).reshape(-1)]) if autonomous else vec('F', dim, *flat_args(t, y))
        tr.fcalls.append((t, y))
        return out

    def f_ham(y, jac_H, clmo_H, n_dof):
        return vec('F', dim, *[Sym.lift(v) for v in np.asarray(y).reshape(-1)])

    def count():
        if len(tr.steps) >= tr.max_steps:
            raise StopUnwinding('unwinding bound of %d kernel calls reached' % tr.max_steps)

    def emb(f, t, y, h, A, B_HIGH, B_LOW, C, has_b_low, *ham):
        count()
        a = flat_args(t, y, h)
        yh = vec('S_y', dim, *a)
        tr.steps.append({'kind': 'fixed', 't': t, 'y': y.copy(), 'h': h, 'yh': yh})
        return yh, yh.copy(), yh - yh

    def emb_ham(t, y, h, A, B_HIGH, B_LOW, C, has_b_low, jac_H, clmo_H, n_dof):
        return emb(None, t, y, h, A, B_HIGH, B_LOW, C, has_b_low)

    def k45(f, t, y, h, A, B_HIGH, C, E):
        count()
        a = flat_args(t, y, h)
        yh = vec('S_y', dim, *a)
        err = vec('S_e', dim, *a)
        K = np.zeros((7, dim))
        for r in range(7):
            for d in range(dim):
                K[r, d] = opaque('S_K%d_%d' % (r, d), *a)
        tr.steps.append({'kind': 'rk45', 't': t, 'y': y.copy(), 'h': h, 'yh': yh, 'err': err, 'K': K})
        return yh, yh - err, err, K

    def k45_ham(t, y, h, A, B_HIGH, C, E, jac_H, clmo_H, n_dof):
        return k45(None, t, y, h, A, B_HIGH, C, E)

    def k853(f, t, y, h, A, B_HIGH, C, E5, E3):
        count()
        a = flat_args(t, y, h)
        yh = vec('S_y', dim, *a)
        e5 = vec('S_e5', dim, *a)
        e3 = vec('S_e3', dim, *a)
        ev = vec('S_ev', dim, *a)
        s = B_HIGH.size
        K = np.zeros((s + 1, dim))
        for r in range(s + 1):
            for d in range(dim):
                K[r, d] = opaque('S_K%d_%d' % (r, d), *a)
        tr.steps.append({'kind': 'dop853', 't': t, 'y': y.copy(), 'h': h, 'yh': yh, 'err5': e5, 'err3': e3, 'K': K})
        return yh, yh - ev, ev, e5, e3, K

    def k853_ham(t, y, h, A, B_HIGH, C, E5, E3, jac_H, clmo_H, n_dof):
        return k853(None, t, y, h, A, B_HIGH, C, E5, E3)

    setp('rk_embedded_step_jit_kernel', emb)
    setp('rk_embedded_step_ham_jit_kernel', emb_ham)
    setp('rk45_step_jit_kernel', k45)
    setp('rk45_step_ham_jit_kernel', k45_ham)
    setp('dop853_step_jit_kernel', k853)
    setp('dop853_step_ham_jit_kernel', k853_ham)
    setp('_hamiltonian_rhs', f_ham)

    # ---- helper functions by contract
    if '_select_initial_step' not in real_helpers:
        def sel(d0, d1, min_step, max_step):
            h0 = constrain(opaque('h_init', d0, d1), lo=min_step, hi=max_step)
            tr.helpers.append(('init', h0))
            return h0
        setp('_select_initial_step', sel)
    if '_error_scale' not in real_helpers:
        def esc(y, y_high, rtol, atol):
            out = np.array([constrain(opaque('scale_%d' % i, Sym.lift(y[i]), Sym.lift(y_high[i])), lo=0, lo_strict=True) for i in range(len(y))])
            tr.helpers.append(('scale', out))
            return out
        setp('_error_scale', esc)
    if '_pi_accept_factor' not in real_helpers:
        def fa(err_norm, err_prev, order):
            r = constrain(opaque('fac_acc', err_norm, err_prev), lo=Fraction(1, 5), hi=10)
            tr.helpers.append(('acc', err_norm, r))
            return r
        setp('_pi_accept_factor', fa)
    if '_pi_reject_factor' not in real_helpers:
        def fr(err_norm, order):
            r = constrain(opaque('fac_rej', err_norm), lo=Fraction(1, 5), hi=10)
            tr.helpers.append(('rej', err_norm, r))
            return r
        setp('_pi_reject_factor', fr)

    # ---- dense output: keep the real evaluators unless asked otherwise (they are linear in the opaque K's)
    if not real_dense:
        def q45(Kseg, P, dim_):
            tr.dense.append(('build45', {'Kseg': Kseg}))
            return ('Q', Kseg)

        def e45(y_old, Q_cache, P, x, hseg):
            K = Q_cache[1]
            tr.dense.append(('eval45', {'y_old': y_old.copy(), 'K': K, 'x': x, 'hseg': hseg}))
            return vec('D45', dim, *([Sym.lift(v) for v in y_old] + [Sym.lift(K[0, 0]), Sym.lift(x), Sym.lift(hseg)]))
        setp('_rk45_build_Q_cache', q45)
        setp('_rk45_eval_dense', e45)

        _n853 = ['f', 't_old', 'y_old', 'f_old', 'y_new', 'f_new', 'hseg', 'Kseg']

        def b853(*a, **k):
            kw = dict(zip(_n853, a))
            kw.update(k)
            tr.dense.append(('build853', {n: kw.get(n) for n in _n853[1:]}))
            return ('F', kw['Kseg'], kw)

        def b853h(*a, **k):
            kw = dict(zip(_n853[1:], a))
            kw.update(k)
            tr.dense.append(('build853', {n: kw.get(n) for n in _n853[1:]}))
            return ('F', kw['Kseg'], kw)

        def e853(y_old, F_cache, power, x):
            K = F_cache[1]
            tr.dense.append(('eval853', {'y_old': y_old.copy(), 'K': K, 'x': x, 'cache': F_cache[2]}))
            return vec('D853', dim, *([Sym.lift(v) for v in y_old] + [Sym.lift(K[0, 0]), Sym.lift(x)]))
        setp('_dop853_build_dense_cache', b853)
        setp('_dop853_build_dense_cache_ham', b853h)
        setp('_dop853_eval_dense', e853)

        def eher(y0, f0, y1, f1, x, h):
            return vec('DH', dim, *([Sym.lift(v) for v in y0] + [Sym.lift(v) for v in y1] + [Sym.lift(x), Sym.lift(h)]))
        setp('_hermite_eval_dense', eher)

    if not real_refine:
        def mk(name):
            def ref(*a):
                # (event_fn, t0, y0, ..., h, ...): record and return an opaque hit inside the step
                nums = [x for x in a if isinstance(x, (Sym, int, float))]
                t0 = a[1] if name != 'dop853' else a[2]
                tr.refines.append((name, a))
                th = opaque('t_hit', *[Sym.lift(x) for x in nums[:3]])
                return th, vec('y_hit', dim, *[Sym.lift(x) for x in nums[:3]])
            return ref
        setp('_hermite_refine_in_step', mk('hermite'))
        setp('_rk45_refine_in_step', mk('rk45'))
        setp('_dop853_refine_in_step', mk('dop853'))
        setp('_dop853_refine_in_step_ham', mk('dop853h'))
    try:
        yield f_generic
    finally:
        for k, v in saved.items():
            setattr(rkmod, k, v)


def event_fn(tr):
    def g(t, y):
        r = opaque('G', *flat_args(t, y))
        tr.gcalls.append((t, y, r))
        return r
    return g


def same(a, b):
    from engine.sym import is_zero_syntactic
    import numpy as _rnp
    if isinstance(a, _rnp.generic):
        a = a.item()
    if isinstance(b, _rnp.generic):
        b = b.item()
    if isinstance(a, (tuple, list)) or (hasattr(a, 'shape') and not isinstance(a, Sym)):
        a = list(np.asarray(a).reshape(-1))
        b = list(np.asarray(b).reshape(-1))
        return len(a) == len(b) and all(same(x, y) for x, y in zip(a, b))
    if isinstance(a, bool) or isinstance(b, bool):
        return a == b
    return is_zero_syntactic(Sym.lift(a) - Sym.lift(b))


HAM_PRELUDE = '''
from hiten.algorithms.polynomial.base import _init_index_tables, _create_encode_dict_from_clmo, _encode_multiindex, _make_poly
from hiten.algorithms.dynamics.hamiltonian import create_hamiltonian_system
def make_hamsys(cubic=1.0, mixed=0.0):
    """H = 1/2 |p|^2 + 1/2 |q|^2 + cubic * q1^2 q2 + mixed * (q1 p2 q3 + q2 p1 p3)  as a hiten polynomial Hamiltonian system
    (3 dof, degree 3); mixed != 0 makes it non-separable (dH/dq depends on p and dH/dp on q)."""
    psi, clmo = _init_index_tables(3)
    enc = _create_encode_dict_from_clmo(clmo)
    H = [_make_poly(d, psi) for d in range(4)]
    def setc(k, c):
        H[sum(k)][_encode_multiindex(np.array(k, dtype=np.int64), sum(k), enc)] = c
    for i in range(3):
        setc(tuple(2 if j == i else 0 for j in range(6)), 0.5); setc(tuple(2 if j == 3 + i else 0 for j in range(6)), 0.5)
    setc((2, 1, 0, 0, 0, 0), cubic)
    if mixed:
        setc((1, 0, 1, 0, 1, 0), mixed); setc((0, 1, 0, 1, 0, 1), mixed)
    return create_hamiltonian_system(H, 3, psi, clmo, enc, n_dof=3)
Y0 = np.array([0.1, 0.05, 0.0, 0.0, 0.1, 0.02])
'''

"""C13 — continuation: member limit, predictions, target interval, step control, counters, periods."""
from __future__ import annotations

import sys
from fractions import Fraction

from harness.common import *  # noqa: F401,F403
from harness.common import np, Explorer, Check, Sym, W, prove_zero, model_to_env, fmt_env, rng, explore, And, Or, Not, Implies, Stub

PID = 'C13'


class Rec:
    """Recording wrapper around the real stepper built by the real factory."""

    def __init__(self, inner, log):
        self._inner = inner
        self._log = log

    def predict(self, last, step):
        pr = self._inner.predict(last, step)
        self._log.append(('predict', last, step, pr.prediction))
        return pr

    def on_accept(self, **kw):
        out = self._inner.on_accept(**kw)
        self._log.append(('accept', kw['step'], out))
        return out

    def on_reject(self, **kw):
        out = self._inner.on_reject(**kw)
        self._log.append(('reject', kw['step'], out))
        return out


def run_backend(kind, max_members, max_retries, with_raise, budget, chk, pdim=1):
    import hiten.algorithms.continuation.backends.pc as PC
    from hiten.algorithms.continuation.types import ContinuationBackendRequest
    from hiten.algorithms.continuation.stepping import make_natural_stepper, make_secant_stepper
    from hiten.algorithms.continuation.stepping.support import _VectorSpaceSecantSupport
    from hiten.algorithms.continuation.interfaces import _OrbitContinuationInterface

    tag = '%s/members<=%d/retries=%d%s' % (kind, max_members, max_retries, '/raise' if with_raise else '')
    rdim = 2
    seed = [W.var('seed%d' % i) for i in range(rdim)]
    step0 = [W.var('step%d' % i) for i in range(pdim)]
    tmin = [W.var('tmin%d' % i) for i in range(pdim)]
    tmax = [W.var('tmax%d' % i) for i in range(pdim)]
    smin, smax = W.vars('step_min step_max')
    ncalls = (max_members - 1) * (max_retries + 1) + max_retries + 2
    CORR = [[W.var('c%d_%d' % (k, i)) for i in range(rdim)] for k in range(ncalls)]
    RES = [W.var('res%d' % k) for k in range(ncalls)]
    PER = [W.var('per%d' % k) for k in range(ncalls)]

    ex = Explorer(max_paths=20000, time_budget_s=budget, max_decisions=300)
    with explore.activate(ex):
        ex.assume(smin > 0)
        ex.assume(smin <= smax)
        for i in range(pdim):
            ex.assume(tmin[i] <= tmax[i])
            ex.assume(seed[i] >= tmin[i])
            ex.assume(seed[i] <= tmax[i])
            ex.assume(step0[i] != 0)                     # documented precondition: non-zero step components
            a = step0[i] * step0[i]
            ex.assume(a >= smin * smin)
            ex.assume(a <= smax * smax)

    iface = _OrbitContinuationInterface()
    problem = Stub(state_indices=np.array(list(range(pdim)), dtype=int))
    predictor = iface._predictor_from_problem(problem)
    param_getter = lambda r: np.asarray(r)[:pdim]
    repr_fn = lambda v: np.asarray(v)

    log = []
    calls = []

    def corrector(pred):
        k = len(calls)
        if with_raise and bool(ex.fresh_bool('raise%d' % k)):
            calls.append((pred, 'raise'))
            raise RuntimeError('corrector failed')
        conv = bool(ex.fresh_bool('conv%d' % k))
        calls.append((pred, conv))
        return np.array(CORR[k]), RES[k], conv, {'period': PER[k]}

    real_factory = make_natural_stepper() if kind == 'natural' else make_secant_stepper()

    def factory(*a):
        return Rec(real_factory(*a), log)

    def go():
        del log[:]
        del calls[:]
        req = ContinuationBackendRequest(
            seed_repr=np.array(seed), stepper_fn=(predictor if kind == 'natural' else repr_fn), predictor_fn=predictor,
            parameter_getter=param_getter, corrector=corrector, step=np.array(step0), target=np.array([tmin, tmax]),
            max_members=max_members, max_retries_per_step=max_retries, shrink_policy=None, step_min=smin, step_max=smax)
        be = PC._PredictorCorrectorContinuationBackend(
            stepper_factory=factory, support_factory=(None if kind == 'natural' else _VectorSpaceSecantSupport))
        resp = be.run(request=req)
        return resp, list(calls), list(log)

    paths = ex.run(go)
    nviol = {}
    target_bad = None
    for n, p in enumerate(paths):
        base = 'C13/%s/path %d' % (tag, n)
        if p.exc is not None:
            if isinstance(p.exc, explore.PathAbort):
                continue
            chk.fail(base, 'backend raised %r' % (p.exc,), None)
            continue
        resp, cl, lg = p.value
        fam, info = resp.family_repr, resp.info
        outcomes = [c[1] for c in cl]
        n_conv = sum(1 for o in outcomes if o is True)
        n_rej = len(outcomes) - n_conv
        problems = []
        # (1) member limit, (2) counters
        if not (len(fam) == info['accepted_count'] <= max_members):
            problems.append('(1) len(family)=%d accepted_count=%d max_members=%d' % (len(fam), info['accepted_count'], max_members))
        if info['accepted_count'] - 1 != n_conv or info['rejected_count'] != n_rej or info['iterations'] != len(outcomes):
            problems.append('(2) counters accepted=%d rejected=%d iterations=%d vs events converged=%d failed=%d calls=%d' % (
                info['accepted_count'], info['rejected_count'], info['iterations'], n_conv, n_rej, len(outcomes)))
        if len(info['parameter_values']) != len(fam) or len(info['aux']) != len(fam) - 1:
            problems.append('(2) parameter_values/aux length')
        # (5) retries: never more than max_retries+1 consecutive failures; the run ends right after such a streak
        streak = 0
        for idx, o in enumerate(outcomes):
            streak = 0 if o is True else streak + 1
            if streak > max_retries + 1:
                problems.append('(5) more than max_retries+1 consecutive failed corrections')
            if streak == max_retries + 1 and idx != len(outcomes) - 1:
                problems.append('(5) run continued after the retry budget was exhausted')
        # the run may only stop because the member limit is reached, the retry budget of the CURRENT step is exhausted,
        # or the last member left the target interval (decided below by the solver)
        final_streak = 0
        for o in outcomes:
            final_streak = 0 if o is True else final_streak + 1
        needs_target_exit = len(fam) < max_members and final_streak != max_retries + 1
        # members are exactly what the corrector returned, in order, with their aux
        acc = [k for k, o in enumerate(outcomes) if o is True]
        for mi, k in enumerate(acc, start=1):
            if not all(_same(fam[mi][i], CORR[k][i]) for i in range(rdim)):
                problems.append('member %d is not the corrector output of call %d' % (mi, k))
            if not _same(info['aux'][mi - 1].get('period'), PER[k]):
                problems.append('aux[%d] is not the aux of the correction that produced member %d' % (mi - 1, mi))
        if problems:
            nviol[problems[0][:3]] = nviol.get(problems[0][:3], 0) + 1
            chk.fail(base + '/structure', '; '.join(problems) + ' on outcome sequence %s' % (outcomes,), _replay_struct(kind, max_members, max_retries, outcomes), None)
        else:
            chk.ok(base + '/structure(1,2,5)', 'outcomes %s: family=%d accepted=%d rejected=%d iterations=%d' % (
                ''.join('A' if o is True else ('X' if o == 'raise' else 'R') for o in outcomes), len(fam), info['accepted_count'], info['rejected_count'], info['iterations']),
                sample={'outcomes': [str(o) for o in outcomes], 'family': len(fam)} if n in (1, 7) else None)

        # (3),(4): predictions and step control, from the recorded stepper traffic
        goals = []
        _a = explore.activate(ex)
        _a.__enter__()
        try:
            cur_step = [Sym.lift(s) for s in step0]
            members = [[Sym.lift(s) for s in seed]]
            ci = 0
            li = 0
            ok_struct = True
            for ev in lg:
                if ev[0] == 'predict':
                    _, last, stp, pred = ev
                    # the step used is the current step; `last` is the last member
                    for i in range(pdim):
                        goals.append((Sym.lift(np.asarray(stp).reshape(-1)[i]) - cur_step[i]) == 0)
                    for i in range(rdim):
                        goals.append((Sym.lift(np.asarray(last).reshape(-1)[i]) - members[-1][i]) == 0)
                    if kind == 'natural':
                        for i in range(rdim):
                            exp_ = members[-1][i] + (cur_step[i] if i < pdim else 0)
                            goals.append((Sym.lift(pred[i]) - exp_) == 0)
                    else:
                        nrm = sum((s * s for s in cur_step), Sym.const(0)).sqrt() if pdim > 1 else abs(cur_step[0])
                        if len(members) >= 2:
                            d = [members[-1][i] - members[-2][i] for i in range(rdim)]
                        else:
                            d = [(cur_step[i] if i < pdim else Sym.const(0)) for i in range(rdim)]   # predictor(seed, step) - seed
                        dn = sum((x * x for x in d), Sym.const(0)).sqrt()
                        for i in range(rdim):
                            # pred = last + d/|d| * |step|   (when |d| != 0)
                            goals.append(Or(dn == 0, ((Sym.lift(pred[i]) - members[-1][i]) * dn - d[i] * nrm) == 0))
                elif ev[0] in ('accept', 'reject'):
                    _, stp, out = ev
                    out = [Sym.lift(x) for x in np.asarray(out).reshape(-1)]
                    for i in range(pdim):
                        ao = abs(out[i])
                        goals.append(ao >= smin)
                        goals.append(ao <= smax)
                        goals.append(out[i] * cur_step[i] > 0)             # direction preserved
                        want = abs(cur_step[i]) if ev[0] == 'accept' else abs(cur_step[i]) / 2
                        goals.append(Implies(And(want >= smin, want <= smax), (ao - want) == 0))
                        goals.append(Implies(want < smin, (ao - smin) == 0))
                        goals.append(Implies(want > smax, (ao - smax) == 0))
                    cur_step = out
                    if ev[0] == 'accept':
                        members.append([Sym.lift(x) for x in fam[len(members)]])
            # final_step reported
            fs = np.asarray(info['final_step']).reshape(-1)
            for i in range(pdim):
                goals.append((Sym.lift(fs[i]) - cur_step[i]) == 0)
            # (6) target: every non-last member (after the seed) lies inside the target interval
            tgoals = []
            for mi in range(1, len(fam) - 1):
                for i in range(pdim):
                    tgoals.append((Sym.lift(fam[mi][i]) >= tmin[i]))
                    tgoals.append((Sym.lift(fam[mi][i]) <= tmax[i]))
        finally:
            _a.__exit__()
        v, m, k = ex.prove_all(p, goals)
        if v == 'unsat':
            chk.ok(base + '/predictions+steps(3,4)', '%d stepper events: each prediction = last member + current step (natural) / along the unit secant times |step| (secant); '
                   'step after accept/reject = sign(step) * clip(|step| (/2 on reject), step_min, step_max)' % len(lg))
        elif v == 'sat':
            env = model_to_env(m)
            chk.fail(base + '/predictions+steps(3,4)', 'goal %d of the prediction/step-control contract fails for outcome sequence %s at %s' % (k, outcomes, fmt_env(env)),
                     _replay_steps(kind, max_members, max_retries, outcomes, env, pdim), env)
        else:
            chk.unknown(base + '/predictions+steps(3,4)', v)
        if needs_target_exit:
            with explore.activate(ex):
                outside = Or(*[Or(Sym.lift(fam[-1][i]) < tmin[i], Sym.lift(fam[-1][i]) > tmax[i]) for i in range(pdim)]) if len(fam) > 1 else False
            v, m = ex.prove(p, outside)
            if v == 'unsat':
                chk.ok(base + '/stop-reason', 'stopped below the member limit with retries left: the last member is outside the target interval')
            elif v == 'sat':
                env = model_to_env(m)
                chk.fail('C13/%s/stop-reason' % tag if not any(o['id'] == 'C13/%s/stop-reason' % tag for o in chk.obl) else base + '/stop-reason',
                         'the run gave up with %d of %d members although the current step had used %d of %d retries and the last member is inside the target (outcomes %s, %s)' % (
                             len(fam), max_members, final_streak, max_retries, outcomes, fmt_env(env)), _replay_struct(kind, max_members, max_retries, outcomes), env)
            else:
                chk.unknown(base + '/stop-reason', v)
        if tgoals:
            v, m, k = ex.prove_all(p, tgoals)
            if v == 'unsat':
                chk.ok(base + '/target(6)', 'members 1..%d inside the target interval (only the last member may leave it)' % (len(fam) - 2))
            elif v == 'sat':
                env = model_to_env(m)
                if target_bad is None:
                    target_bad = (base, outcomes, env)
                chk.obl.append({'id': base + '/target(6)', 'verdict': 'sat', 'detail': 'non-last member outside the target interval'})
            else:
                chk.unknown(base + '/target(6)', v)
    if target_bad is not None:
        base, outcomes, env = target_bad
        cnt = sum(1 for o in chk.obl if o['verdict'] == 'sat' and o['id'].startswith('C13/%s/' % tag) and o['id'].endswith('/target(6)'))
        chk.obl = [o for o in chk.obl if not (o['verdict'] == 'sat' and o['id'].startswith('C13/%s/' % tag) and o['id'].endswith('/target(6)'))]
        chk.fail('C13/%s/target(6)' % tag, 'generation continues after a member left the target interval (%d paths; first: outcomes %s, %s)' % (cnt, outcomes, fmt_env(env)),
                 _replay_target(kind, outcomes, env, max_members, max_retries, pdim), env)
    st = chk.absorb(ex)
    chk.note('%s: %d outcome/sign paths, %d feasibility queries' % (tag, st['paths'], st['queries']))


def _same(a, b):
    from engine.sym import is_zero_syntactic
    if a is None or b is None:
        return a is b
    return is_zero_syntactic(Sym.lift(a) - Sym.lift(b))


_REPLAY_COMMON = '''
from hiten.algorithms.continuation.backends.pc import _PredictorCorrectorContinuationBackend
from hiten.algorithms.continuation.types import ContinuationBackendRequest
from hiten.algorithms.continuation.stepping import make_natural_stepper, make_secant_stepper
from hiten.algorithms.continuation.stepping.support import _VectorSpaceSecantSupport
def run(kind, outcomes, corr, seed, step, tmin, tmax, smin, smax, max_members, max_retries):
    calls = []
    def corrector(pred):
        k = len(calls); calls.append(np.array(pred, dtype=float))
        o = outcomes[k] if k < len(outcomes) else False
        if o == 'raise': raise RuntimeError('x')
        return np.array(corr[k], dtype=float), 0.0, bool(o), {'period': float(k)}
    pd = len(step)
    def predictor(last, st):
        last = np.asarray(last, dtype=float).copy()
        for i, d in enumerate(np.asarray(st, dtype=float)): last[i] += d
        return last
    req = ContinuationBackendRequest(seed_repr=np.array(seed, dtype=float), stepper_fn=(predictor if kind == 'natural' else (lambda v: np.asarray(v, dtype=float))),
        predictor_fn=predictor, parameter_getter=lambda r: np.asarray(r, dtype=float)[:pd], corrector=corrector, step=np.array(step, dtype=float),
        target=np.array([tmin, tmax], dtype=float), max_members=max_members, max_retries_per_step=max_retries, shrink_policy=None, step_min=smin, step_max=smax)
    be = _PredictorCorrectorContinuationBackend(stepper_factory=(make_natural_stepper() if kind == 'natural' else make_secant_stepper()),
        support_factory=(None if kind == 'natural' else _VectorSpaceSecantSupport))
    return be.run(request=req), calls
'''


def _replay_general():
    """General confirmation on the compiled build: the real predictor-corrector backend on a model family (points of the parabola
    y = x^2, parameter x) with scripted accept/reject sequences, natural and secant steppers, increasing and decreasing parameter:
    counters equal the events, the member limit and the retry budget hold, predictions start from the last accepted member with a
    step inside [step_min, step_max] that shrinks after a rejection, and no member but the last lies outside the target interval."""
    return _REPLAY_COMMON + '''
bad = {}
rs = np.random.default_rng(13)
for kind in ("natural", "secant"):
    for sgn in (1.0, -1.0):
        for trial in range(12):
            max_members = int(rs.integers(2, 7)); max_retries = int(rs.integers(0, 4))
            outcomes = [bool(rs.random() < 0.65) for _ in range(64)]
            calls = []
            def corrector(pred):
                k = len(calls); calls.append(np.array(pred, dtype=float))
                return np.array([pred[0], pred[0] ** 2]), 0.0, outcomes[k], {"period": float(k)}
            def predictor(last, st):
                last = np.asarray(last, dtype=float).copy(); last[0] += float(np.asarray(st, dtype=float)[0]); return last
            tmin, tmax = (0.0, 0.9) if sgn > 0 else (-0.9, 0.0)
            smin, smax, step0 = 1e-3, 0.4, 0.2 * sgn
            req = ContinuationBackendRequest(seed_repr=np.array([0.0, 0.0]), stepper_fn=(predictor if kind == "natural" else (lambda v: np.asarray(v, dtype=float))), predictor_fn=predictor,
                parameter_getter=lambda r: np.asarray(r, dtype=float)[:1], corrector=corrector, step=np.array([step0]), target=np.array([[tmin], [tmax]]), max_members=max_members,
                max_retries_per_step=max_retries, shrink_policy=None, step_min=smin, step_max=smax)
            be = _PredictorCorrectorContinuationBackend(stepper_factory=(make_natural_stepper() if kind == "natural" else make_secant_stepper()), support_factory=(None if kind == "natural" else _VectorSpaceSecantSupport))
            tag = "%s_sign%+d_trial%d" % (kind, int(sgn), trial)
            try:
                resp = be.run(request=req)
            except Exception as e:
                bad[tag] = "raised %s" % repr(e)[:80]; continue
            fam = [np.asarray(m, dtype=float) for m in resp.family_repr]; n = len(calls); used = outcomes[:n]
            if len(fam) > max_members: bad[tag + "_member_limit"] = len(fam); continue
            info = resp.info
            if int(info["accepted_count"]) != 1 + sum(used) or len(fam) != 1 + sum(used): bad[tag + "_accepted"] = [int(info["accepted_count"]), 1 + sum(used), len(fam)]; continue
            if int(info["rejected_count"]) != n - sum(used) or int(info["iterations"]) != n: bad[tag + "_rejected"] = [int(info["rejected_count"]), n - sum(used), int(info["iterations"]), n]; continue
            inside = [tmin - 1e-12 <= m[0] <= tmax + 1e-12 for m in fam]
            if not all(inside[:-1]): bad[tag + "_target"] = "a member that is not the last lies outside the target interval"; continue
            # predictions: from the last accepted member; step inside the clamps; shrinks after a rejection; retry budget per step
            last, acc_i, prev_len, streak = fam[0], 0, None, 0
            for k in range(n):
                d = calls[k] - last; length = abs(d[0]) if kind == "natural" else float(np.linalg.norm(d))
                if kind == "natural" and abs(d[1]) > 1e-12: bad[tag + "_prediction"] = "natural prediction changes more than the parameter"; break
                if not (smin - 1e-12 <= length <= smax + 1e-12): bad[tag + "_clamp"] = "step length %.4g outside [%.4g, %.4g]" % (length, smin, smax); break
                if kind == "natural" and np.sign(d[0]) != sgn: bad[tag + "_direction"] = "step changes direction"; break
                if streak > 0 and prev_len is not None and length > prev_len * (1 + 1e-12) and prev_len > smin * (1 + 1e-9): bad[tag + "_shrink"] = "step grows after a rejection: %.4g -> %.4g" % (prev_len, length); break
                prev_len = length
                if used[k]: acc_i += 1; last = fam[acc_i]; streak = 0
                else:
                    streak += 1
                    if streak > max_retries + 1: bad[tag + "_retries"] = "%d consecutive rejections with max_retries_per_step = %d" % (streak, max_retries); break
            else:
                # why did the run stop?  only at the member limit, with the last member outside the target, or after using up the retries of the CURRENT step
                if len(fam) < max_members and inside[-1] and streak <= max_retries: bad[tag + "_stops_early"] = "%d of %d members, last inside the target, only %d consecutive rejections (max_retries_per_step = %d)" % (len(fam), max_members, streak, max_retries)
_verdict(bool(bad), **{k: bad[k] for k in list(bad)[:8]})
'''


def _vals(env, pdim, ncalls=16):
    g = lambda k, d=0.0: float(env.get(k, d)) if env else d
    seed = [g('seed0'), g('seed1')]
    step = [g('step%d' % i, 0.1) for i in range(pdim)]
    tmin = [g('tmin%d' % i, -1.0) for i in range(pdim)]
    tmax = [g('tmax%d' % i, 1.0) for i in range(pdim)]
    corr = [[g('c%d_0' % k), g('c%d_1' % k)] for k in range(ncalls)]
    return seed, step, tmin, tmax, corr, g('step_min', 1e-3), g('step_max', 1.0)


def _replay_target(kind, outcomes, env, max_members, max_retries, pdim):
    seed, step, tmin, tmax, corr, smin, smax = _vals(env, pdim)
    return _REPLAY_COMMON + '''
resp, calls = run(%r, %r, %r, %r, %r, %r, %r, %r, %r, %d, %d)
fam = resp.family_repr
bad = [i for i in range(1, len(fam) - 1) if np.any(np.asarray(fam[i])[:%d] < np.array(%r)) or np.any(np.asarray(fam[i])[:%d] > np.array(%r))]
_verdict(bool(bad), members_outside_target_that_are_not_last=bad, family_size=len(fam))
''' % (kind, outcomes, corr, seed, step, tmin, tmax, smin, smax, max_members, max_retries, pdim, tmin, pdim, tmax)


def _replay_struct(kind, max_members, max_retries, outcomes):
    seed, step, tmin, tmax, corr, smin, smax = _vals(None, 1)
    corr = [[0.01 * (k + 1), 0.0] for k in range(16)]
    return _REPLAY_COMMON + '''
outcomes = %r
resp, calls = run(%r, outcomes, %r, [0.0, 0.0], [0.1], [-1.0], [1.0], 1e-3, 1.0, %d, %d)
info = resp.info; used = outcomes[:len(calls)]
nconv = sum(1 for o in used if o is True)
bad = []
if not (len(resp.family_repr) == info['accepted_count'] <= %d): bad.append('member limit')
if info['accepted_count'] - 1 != nconv or info['rejected_count'] != len(used) - nconv or info['iterations'] != len(used): bad.append('counters')
streak = 0
for i, o in enumerate(used):
    streak = 0 if o is True else streak + 1
    if streak > %d + 1 or (streak == %d + 1 and i != len(used) - 1): bad.append('retries')
fs = 0
for o in used: fs = 0 if o is True else fs + 1
if len(resp.family_repr) < %d and fs != %d + 1 and len(used) < len(outcomes): bad.append('gave up early')
acc = [k for k, o in enumerate(used) if o is True]
for mi, k in enumerate(acc, start=1):
    if not np.allclose(resp.family_repr[mi], [0.01 * (k + 1), 0.0]): bad.append('member identity')
    if info['aux'][mi - 1].get('period') != float(k): bad.append('aux alignment')
_verdict(bool(bad), problems=bad, info={k: v for k, v in info.items() if k.endswith('count') or k == 'iterations'})
''' % (outcomes + [True, True, True], kind, corr, max_members, max_retries, max_members, max_retries, max_retries, max_members, max_retries)


def _replay_steps(kind, max_members, max_retries, outcomes, env, pdim):
    seed, step, tmin, tmax, corr, smin, smax = _vals(env, pdim)
    return _REPLAY_COMMON + '''
outcomes = %r; kind = %r; smin, smax = %r, %r
resp, calls = run(kind, outcomes, %r, %r, %r, %r, %r, smin, smax, %d, %d)
fam = [np.asarray(f, dtype=float) for f in resp.family_repr]
step = np.array(%r, dtype=float); members = [np.array(%r, dtype=float)]; bad = []
clamp = lambda v: np.sign(v) * np.clip(np.abs(v), smin, smax)
for k, pred in enumerate(calls):
    last = members[-1]
    if kind == 'natural':
        exp = last.copy(); exp[:len(step)] += step
    else:
        d = (members[-1] - members[-2]) if len(members) >= 2 else np.concatenate([step, np.zeros(len(last) - len(step))])
        exp = last + d / np.linalg.norm(d) * np.linalg.norm(step) if np.linalg.norm(d) > 0 else None
    if exp is not None and not np.allclose(pred, exp, atol=1e-12): bad.append(('prediction', k, pred.tolist(), exp.tolist()))
    if outcomes[k] is True:
        members.append(fam[len(members)]); step = clamp(step)
    else:
        step = clamp(step * 0.5)
if not np.allclose(resp.info['final_step'], step, atol=1e-15): bad.append(('final_step', resp.info['final_step'].tolist(), step.tolist()))
_verdict(bool(bad), problems=bad[:3])
''' % (outcomes, kind, smin, smax, corr, seed, step, tmin, tmax, max_members, max_retries, step, seed)


def interface_periods(chk):
    """(7) to_domain: member i gets the period of its own correction; _build_corrector reports 2*half_period."""
    from hiten.algorithms.continuation.interfaces import _OrbitContinuationInterface
    from hiten.algorithms.continuation.types import ContinuationBackendResponse
    import hiten.algorithms.continuation.interfaces as ci
    iface = _OrbitContinuationInterface()
    chk.encode(_OrbitContinuationInterface.to_domain, _OrbitContinuationInterface._build_corrector, _OrbitContinuationInterface._instantiate)
    seedP = W.var('seed_period')

    class FakeOrbit:
        def __init__(self, libration_point=None, initial_state=None):
            self.libration_point = libration_point
            self.initial_state = initial_state
            self.period = None
            self.half = None

        def correct(self, options=None):
            return Stub(x_corrected=self.initial_state, half_period=self.half, converged=True)

    seed_orbit = FakeOrbit('LP', np.array([Sym.const(0)] * 6))
    seed_orbit.period = seedP
    problem = Stub(initial_solution=seed_orbit)
    n = 4
    PER = [W.var('P%d' % k) for k in range(n)]
    fam = [np.array([W.var('m%d_%d' % (k, i)) for i in range(6)]) for k in range(n + 1)]
    info = {'accepted_count': n + 1, 'rejected_count': 2, 'iterations': n + 2, 'parameter_values': tuple(f[:1] for f in fam),
            'aux': tuple({'period': PER[k]} for k in range(n))}
    with explore.activate(Explorer()):
        payload = iface.to_domain(ContinuationBackendResponse(family_repr=fam, info=info), problem=problem)
    family = payload.family
    bad = []
    if family[0] is not seed_orbit:
        bad.append('member 0 is not the seed')
    for i in range(1, n + 1):
        o = family[i]
        if not all(_same(o.initial_state[c], fam[i][c]) for c in range(6)):
            bad.append('member %d not built from family_repr[%d]' % (i, i))
        if not _same(o.period, PER[i - 1]):
            bad.append('member %d carries period %r, not the period of its own correction' % (i, o.period))
    if bad:
        chk.fail('C13/(7)to_domain/periods', '; '.join(bad), '''
from hiten.algorithms.continuation.interfaces import _OrbitContinuationInterface
from hiten.algorithms.continuation.types import ContinuationBackendResponse
class O:
    def __init__(self, libration_point=None, initial_state=None): self.initial_state = initial_state; self.period = None; self.libration_point = libration_point
seed = O(None, np.zeros(6)); seed.period = 9.0
class P: initial_solution = seed
fam = [np.full(6, float(k)) for k in range(4)]
info = {'accepted_count': 4, 'rejected_count': 0, 'iterations': 3, 'parameter_values': (), 'aux': ({'period': 1.0}, {'period': 2.0}, {'period': 3.0})}
pl = _OrbitContinuationInterface().to_domain(ContinuationBackendResponse(family_repr=fam, info=info), problem=P)
got = [o.period for o in pl.family]
_verdict(got[1:] != [1.0, 2.0, 3.0], periods=got)
''')
    else:
        chk.ok('C13/(7)to_domain/periods', 'member i is instantiated from family_repr[i] and gets aux[i-1]["period"] (its own correction), for %d members' % n)
    # _build_corrector: aux period = 2 * half_period of that correction
    half = W.var('half_period')
    problem2 = Stub(initial_solution=seed_orbit, corrector_tol=1e-10, corrector_max_attempts=5, corrector_max_delta=0.1, corrector_order=8,
                    corrector_steps=100, corrector_fd_step=1e-8, corrector_forward=1)
    saved = iface._instantiate

    def inst(domain_obj, representation):
        o = saved(domain_obj, representation)
        o.half = half
        return o
    iface._instantiate = inst
    with explore.activate(Explorer()):
        corr = iface._build_corrector(problem2)
        pred = np.array([W.var('pr%d' % i) for i in range(6)])
        out = corr(pred)
    okp = _same(out[3]['period'], 2 * half) and all(_same(out[0][i], pred[i]) for i in range(6)) and out[2] is True
    if okp:
        chk.ok('C13/(7)corrector-closure/period=2*half_period', 'aux["period"] = 2*half_period of the correction of this very prediction; corrected state and converged flag passed through')
    else:
        chk.fail('C13/(7)corrector-closure/period=2*half_period', 'aux period %r' % (out[3],), None)


def step_control_with_policy(chk):
    """on_reject with a user-supplied shrink policy (its output an arbitrary symbolic vector, or an exception): the step handed back
    is clamped to [step_min, step_max] componentwise with the policy's sign -- the bound the backend's predictions rely on."""
    import hiten.algorithms.continuation.stepping.base as SB
    cls = type('StepUnderTest', (SB._ContinuationStepBase,), {})
    cls.__abstractmethods__ = frozenset()
    smin, smax = W.vars('step_min step_max')
    step = np.array([W.var('st0'), W.var('st1')])
    pol = np.array([W.var('pol0'), W.var('pol1')])
    for mode in ('returns', 'raises'):
        ex = Explorer(max_paths=400)
        ex.abs_by_branch = False
        with explore.activate(ex):
            ex.assume(smin > 0)
            ex.assume(smin <= smax)
            for v in list(step) + list(pol):
                ex.assume(v != 0)

        def policy(st):
            if mode == 'raises':
                raise RuntimeError('policy failed')
            return pol.copy()
        obj = object.__new__(cls)
        obj._shrink_policy, obj._step_min, obj._step_max = policy, smin, smax

        def go():
            return obj.on_reject(last_solution=None, step=step.copy(), proposal=None)
        bad = None
        paths = ex.run(go)
        for pth in paths:
            if pth.exc is not None:
                bad = ('raised %r' % (pth.exc,), None)
                break
            out = pth.value
            src = pol if mode == 'returns' else step * Fraction(1, 2)
            with explore.activate(ex):
                goals = []
                for i in range(2):
                    o, v = Sym.lift(out[i]), Sym.lift(src[i])
                    goals += [abs(o) >= smin, abs(o) <= smax, o * v > 0,
                              Implies(And(abs(v) >= smin, abs(v) <= smax), o - v == 0)]
            v_, m_, kk = ex.prove_all(pth, goals)
            if v_ != 'unsat':
                bad = ('component %d of the step returned after a rejection violates %s' % (kk // 4, ('|step| >= step_min', '|step| <= step_max', 'the sign of the proposed step', 'identity inside the clamps')[kk % 4]), m_)
                break
        chk.absorb(ex)
        oid = 'C13/(4)step-control/custom shrink policy %s' % mode
        if bad is None:
            chk.ok(oid, '%d paths: the step after a rejection is the policy output%s clamped componentwise to [step_min, step_max] with its sign' % (len(paths), '' if mode == 'returns' else ' (halving fallback when the policy raises)'))
        else:
            env = model_to_env(bad[1]) if bad[1] is not None else {}
            chk.fail(oid, '%s, e.g. at %s' % (bad[0], fmt_env(env)), _replay_policy(), env)


def _replay_policy():
    """Compiled build: the real backend with custom shrink policies (x0.25 and x4) and a corrector that keeps rejecting: every
    prediction offset and the final step stay inside [step_min, step_max]."""
    return _REPLAY_COMMON + '''
bad = {}
for kind in ("natural", "secant"):
    for fac in (0.25, 4.0):
        for sgn in (1.0, -1.0):
            calls = []
            def corrector(pred):
                k = len(calls); calls.append(np.array(pred, dtype=float))
                return np.array([pred[0], pred[0] ** 2]), 0.0, k < 2, {"period": float(k)}
            def predictor(last, st):
                last = np.asarray(last, dtype=float).copy(); last[0] += float(np.asarray(st, dtype=float)[0]); return last
            smin, smax = 1e-3, 0.05
            req = ContinuationBackendRequest(seed_repr=np.array([0.0, 0.0]), stepper_fn=(predictor if kind == "natural" else (lambda v: np.asarray(v, dtype=float))), predictor_fn=predictor,
                parameter_getter=lambda r: np.asarray(r, dtype=float)[:1], corrector=corrector, step=np.array([0.02 * sgn]), target=np.array([[-5.0], [5.0]]), max_members=6,
                max_retries_per_step=8, shrink_policy=(lambda st, f=fac: np.asarray(st, dtype=float) * f), step_min=smin, step_max=smax)
            be = _PredictorCorrectorContinuationBackend(stepper_factory=(make_natural_stepper() if kind == "natural" else make_secant_stepper()), support_factory=(None if kind == "natural" else _VectorSpaceSecantSupport))
            resp = be.run(request=req); fam = [np.asarray(m, dtype=float) for m in resp.family_repr]
            last = fam[-1]
            lens = [abs(c[0] - last[0]) if kind == "natural" else float(np.linalg.norm(c - last)) for c in calls[len(fam) - 1:]]
            out = [l for l in lens if not (smin * (1 - 1e-9) <= l <= smax * (1 + 1e-9))]
            fs = resp.info.get("final_step")
            if out or (fs is not None and not (smin * (1 - 1e-9) <= float(np.max(np.abs(fs))) <= smax * (1 + 1e-9))):
                bad["%s_policy_x%g_sign%+d" % (kind, fac, int(sgn))] = "prediction offsets %s, final step %s, clamps [%g, %g]" % (np.round(out[:3], 8).tolist(), fs, smin, smax)
_verdict(bool(bad), **bad)
'''


def main():
    chk = Check(PID)
    chk.default_replay = _replay_general
    import hiten.algorithms.continuation.backends.pc as PC
    import hiten.algorithms.continuation.stepping.base as SB
    import hiten.algorithms.continuation.stepping.np.base as NB
    import hiten.algorithms.continuation.stepping.sc.base as SC
    import hiten.algorithms.continuation.stepping.support as SUP
    import hiten.algorithms.continuation.stepping as ST
    thorough = chk.tier == 'thorough'
    chk.encode(PC._PredictorCorrectorContinuationBackend.run, SB._ContinuationStepBase.on_accept, SB._ContinuationStepBase.on_reject,
               SB._ContinuationStepBase._clamp_step, NB._NaturalParameterStep.predict, SC._SecantStep.predict,
               SUP._VectorSpaceSecantSupport.on_accept, ST.make_natural_stepper, ST.make_secant_stepper)
    chk.bound(max_members='<= %d' % (4 if thorough else 3), max_retries='<= %d' % (2 if thorough else 1),
              representation_dim=2, parameter_dim='1 (2 in the thorough tier)', corrector_outcomes='every accept/reject%s sequence (free boolean per call)' % ('/raise' if thorough else ''))
    chk.assume('seed parameter inside the target interval', 'step components non-zero with step_min <= |step_i| <= step_max, 0 < step_min <= step_max',
               'corrector, its residual and aux are uninterpreted (fresh symbols per call); the predictor is the interface\'s own _predictor_from_problem')
    chk.out_of_scope('that members are periodic orbits (C05): here each member is exactly what the corrector returned', 'shrink_policy callbacks inside the backend loop (their clamping is decided separately on on_reject with an arbitrary policy output)')
    run_backend('natural', 3, 1, False, 400, chk)
    run_backend('secant', 3, 1, False, 400, chk)
    if thorough:
        run_backend('natural', 3, 1, True, 900, chk)
        run_backend('natural', 4, 2, False, 2400, chk)
        run_backend('secant', 4, 1, False, 2400, chk)
        run_backend('natural', 3, 1, False, 2400, chk, pdim=2)
    interface_periods(chk)
    step_control_with_policy(chk)
    return chk.finish()


if __name__ == '__main__':
    sys.exit(main())

"""C17 — Hamiltonian fast paths agree with the generic integration path."""
from __future__ import annotations

import sys
from fractions import Fraction

from harness.common import *  # noqa: F401,F403
from harness.common import np, Explorer, Check, Sym, W, prove_zero, model_to_env, fmt_env, explore, opaque, validate, rng, Stub
from harness import drivers as D
from harness.drivers import same
from harness import polyref as R

PID = 'C17'

H_SPEC = {
    2: [(1, 0, 0, 1, 0, 0), (0, 2, 0, 0, 0, 0), (0, 0, 0, 0, 2, 0), (0, 0, 2, 0, 0, 0), (0, 0, 0, 0, 0, 2), (1, 1, 0, 0, 0, 0), (0, 0, 0, 1, 0, 1)],
    3: [(2, 1, 0, 0, 0, 0), (0, 1, 0, 0, 1, 1), (0, 0, 0, 3, 0, 0), (1, 0, 1, 0, 1, 0), (0, 0, 3, 0, 0, 0), (0, 0, 0, 1, 2, 0)],
}


def rhs_identity(chk):
    import hiten.algorithms.polynomial.base as pb
    import hiten.algorithms.polynomial.operations as po
    import hiten.algorithms.dynamics.hamiltonian as dh
    import hiten.algorithms.integrators.symplectic as sp
    chk.encode(dh._hamiltonian_rhs, sp._eval_dH_dQ, sp._eval_dH_dP, sp._eval_hamiltonian_derivative, po._polynomial_jacobian, po._polynomial_evaluate,
               dh._HamiltonianSystem.__init__, dh._HamiltonianSystem._build_rhs_impl, dh._HamiltonianSystem.dH_dQ, dh._HamiltonianSystem.dH_dP)
    psi, clmo = pb._init_index_tables(3)
    enc = pb._create_encode_dict_from_clmo(clmo)
    ex = Explorer(generic_nonzero=True)
    X = [W.var('x%d' % i) for i in range(6)]
    with explore.activate(ex):
        H_blocks, Href = R.make_sym_poly((psi, clmo, enc), H_SPEC, 'h')
        hs = dh.create_hamiltonian_system(H_blocks, 3, psi, clmo, enc, n_dof=3)
        state = np.array(X)
        r1 = dh._hamiltonian_rhs(state, hs.jac_H, hs.clmo_H, 3)
        r2 = hs.rhs(Sym.const(0), state)
        dQ = hs.dH_dQ(state[:3], state[3:])
        dP = hs.dH_dP(state[:3], state[3:])
        r3 = sp._eval_hamiltonian_derivative(state[:3], state[3:], hs.jac_H, hs.clmo_H)
    Hval = R.peval(Href, X)
    want = [Hval.diff(X[3 + i]) for i in range(3)] + [-Hval.diff(X[i]) for i in range(3)]
    for name, got in (('_hamiltonian_rhs', r1), ('hamsys.rhs', r2), ('_eval_hamiltonian_derivative', r3),
                      ('(dH_dP, -dH_dQ) evaluators', list(dP) + [-Sym.lift(v) for v in dQ])):
        for i in range(6):
            v, m, info = prove_zero(ex, Sym.lift(got[i]) - want[i])
            oid = 'C17/(1)rhs/%s[%d]' % (name, i)
            if v == 'unsat':
                chk.ok(oid, 'equals the engine\'s derivative of the reference evaluation of H (13 symbolic coefficients, degree <= 3); ' + info.get('by', ''),
                       sample={'component': i, 'value': repr(want[i])[:160]} if (name == '_hamiltonian_rhs' and i == 3) else None)
            elif v == 'sat':
                env = model_to_env(m)
                chk.fail(oid, 'component %d differs from (dH/dP, -dH/dQ) at %s' % (i, fmt_env(env)), _replay_rhs(env, name), env)
            else:
                chk.unknown(oid, v)
    st = chk.absorb(ex)
    chk.assume('zero-skip guards (`if coeff == 0: continue`) are taken on the generic (non-zero) side for symbolic coefficients; structurally absent monomials are the concrete 0.0 and exercise the skipping side (%d guards)' % st['generic_nonzero_notes'])
    return (psi, clmo, enc)


def _replay_rhs(env, name):
    coeffs = {}
    n = 0
    for deg, ks in H_SPEC.items():
        for k in ks:
            coeffs[k] = float(env.get('h%d' % n, 0))
            n += 1
    x = [float(env.get('x%d' % i, 0)) for i in range(6)]
    return D.HAM_PRELUDE + '''
from hiten.algorithms.dynamics.hamiltonian import _hamiltonian_rhs
from hiten.algorithms.integrators.symplectic import _eval_hamiltonian_derivative
coeffs = %r; x = np.array(%r)
psi, clmo = _init_index_tables(3); enc = _create_encode_dict_from_clmo(clmo)
H = [_make_poly(d, psi) for d in range(4)]
for k, c in coeffs.items():
    H[sum(k)][_encode_multiindex(np.array(k, dtype=np.int64), sum(k), enc)] = c
hs = create_hamiltonian_system(H, 3, psi, clmo, enc, n_dof=3)
def Hval(z):
    return sum(c * np.prod([z[i] ** k[i] for i in range(6)]) for k, c in coeffs.items())
h = 1e-6; g = np.zeros(6)
for i in range(6):
    e = np.zeros(6); e[i] = h
    g[i] = (Hval(x + e) - Hval(x - e)) / (2 * h)
want = np.concatenate([g[3:], -g[:3]])
name = %r
if name == '_eval_hamiltonian_derivative':
    got = _eval_hamiltonian_derivative(x[:3], x[3:], hs.jac_H, hs.clmo_H)
elif name.startswith('(dH_dP'):
    got = np.concatenate([hs.dH_dP(x[:3], x[3:]), -hs.dH_dQ(x[:3], x[3:])])
else:
    got = _hamiltonian_rhs(x, hs.jac_H, hs.clmo_H, 3)
_verdict(np.max(np.abs(got - want)) > 1e-6 * max(1.0, np.max(np.abs(want))), got=got.tolist(), want=want.tolist())
''' % (coeffs, x, name)


def rhs_can_be_evaluated(chk):
    """First clause: 'the right-hand side exposed by a polynomial Hamiltonian system can be evaluated' -- a statement about
    the compiled build (numba lowering), checked where it lives: one call on the real build, compared with the encoding."""
    body = D.HAM_PRELUDE + '''
hs = make_hamsys()
try:
    out = hs.rhs(0.0, Y0)
    q, p = Y0[:3], Y0[3:]
    want = np.array([p[0], p[1], p[2], -(q[0] + 2*q[0]*q[1]), -(q[1] + q[0]**2), -q[2]])
    _verdict(not np.allclose(out, want, atol=1e-13), got=out.tolist(), want=want.tolist())
except Exception as e:
    _verdict(True, raised=type(e).__name__, message=str(e)[:200])
'''
    rc_path = None
    import os
    from engine.report import run_real, REPLAY_PROLOGUE, VERIF
    d = os.path.join(VERIF, 'replays', PID)
    os.makedirs(d, exist_ok=True)
    path = os.path.join(d, 'C17__1_rhs_can_be_evaluated.py')
    with open(path, 'w') as fh:
        fh.write(REPLAY_PROLOGUE % {'pid': PID, 'oid': 'C17/(1)rhs-can-be-evaluated'})
        fh.write(body)
    rc, out, err = run_real(path, timeout=600)
    oid = 'C17/(1)rhs-can-be-evaluated'
    if rc == 1:
        chk.ok(oid, 'hamsys.rhs(t, y) evaluates on the compiled build and equals Hamilton\'s equations of the test Hamiltonian: ' + out.strip()[-160:])
        chk.validated('hamsys.rhs (compiled)', 'Y0', [], [], True)
    elif rc == 0:
        chk.obl.append({'id': oid, 'verdict': 'sat', 'detail': out.strip()[-300:], 'replay': {'path': path, 'rc': rc, 'out': out[-600:]}})
        chk.replays['attempted'] += 1
        chk.replays['confirmed'] += 1
        if oid in chk._known_keys:
            chk.known_hits.append((oid, chk._known_keys[oid].get('what', '')))
        else:
            chk.violations.append((oid, 'the right-hand side of a polynomial Hamiltonian system cannot be evaluated on the compiled build: ' + out.strip()[-200:], path))
    else:
        chk.inconclusive.append('%s: evaluation script failed rc=%s %s' % (oid, rc, err[-300:]))


def kernel_twins(chk):
    """(2) every *_ham step kernel equals its generic twin when both see the same vector field F (uninterpreted)."""
    import hiten.algorithms.integrators.rk as rk
    dim = 2
    t, h = W.var('t'), W.var('h')
    y = np.array([W.var('y0'), W.var('y1')])

    def Fv(y_):
        return np.array([opaque('F%d' % i, *[Sym.lift(v) for v in y_]) for i in range(dim)])
    f = lambda t_, y_: Fv(y_)
    saved = rk._hamiltonian_rhs
    rk._hamiltonian_rhs = lambda y_, j, c, n: Fv(y_)
    try:
        for p_ in (4, 6, 8):
            integ = rk.RungeKutta(order=p_)
            a = rk.rk_embedded_step_jit_kernel(f, t, y, h, integ._A, integ._B_HIGH, np.empty(0), integ._C, False)
            b = rk.rk_embedded_step_ham_jit_kernel(t, y, h, integ._A, integ._B_HIGH, np.empty(0), integ._C, False, None, None, 1)
            ok = all(same(x, z) for x, z in zip(a, b))
            (chk.ok if ok else (lambda o, d: chk.fail(o, d, None)))('C17/(2)kernel-twin/rk_embedded_step order %d' % p_, 'y_high, y_low, err identical for an arbitrary vector field (dimension 2)')
        c5 = rk._RK45
        a = rk.rk45_step_jit_kernel(f, t, y, h, c5._A, c5._B_HIGH, c5._C, c5._E)
        b = rk.rk45_step_ham_jit_kernel(t, y, h, c5._A, c5._B_HIGH, c5._C, c5._E, None, None, 1)
        ok = all(same(x, z) for x, z in zip(a, b))
        (chk.ok if ok else (lambda o, d: chk.fail(o, d, None)))('C17/(2)kernel-twin/rk45_step', 'y_high, y_low, err and all 7 stage derivatives identical')
    finally:
        rk._hamiltonian_rhs = saved
    chk.note('the DOP853 step and dense-cache twins are compared through their B-series in C02-(4) (their nested 13-stage opaque terms are large)')


def driver_twins(chk, scheme, event, max_steps, budget):
    """(2) product run: generic driver then Hamiltonian driver under one explorer; identical traces and results on every path."""
    import hiten.algorithms.integrators.rk as rk
    dim = 1
    tr = D.Tracker(dim, max_steps)
    tA, tB, tM = W.var('tA'), W.var('tB'), W.var('tM')
    y0 = np.array([W.var('y0_0')])
    rtol, atol, hmax, hmin, xtol, gtol = W.vars('rtol atol max_step min_step xtol gtol')
    tag = '%s%s' % (scheme, '/event' if event else '')
    ex = Explorer(max_paths=8000, time_budget_s=budget, max_decisions=300)
    ex.abs_by_branch = False
    with explore.activate(ex):
        for c in (tA < tB, rtol > 0, atol > 0, hmin > 0, hmin <= hmax, xtol > 0, gtol >= 0, tA < tM, tM < tB):
            ex.assume(c)
    g = D.event_fn(tr)
    grid = np.array([tA, tM, tB])

    def call(ham, f):
        if scheme == 'fixed':
            integ = rk.RungeKutta(order=4)
            if event:
                kw = dict(y0=y0, t_vals=grid, A=integ._A, B_HIGH=integ._B_HIGH, C=integ._C, event_fn=g, direction=0, terminal=1, xtol=xtol, gtol=gtol)
                return rk._FixedStepRK._integrate_fixed_rk_until_event_ham(jac_H=None, clmo_H=None, n_dof=1, **kw) if ham else rk._FixedStepRK._integrate_fixed_rk_until_event(f=f, **kw)
            if ham:
                return rk._FixedStepRK._integrate_fixed_rk_ham(y0, grid, integ._A, integ._B_HIGH, np.empty(0), integ._C, False, None, None, 1)
            return rk._FixedStepRK._integrate_fixed_rk(f, y0, grid, integ._A, integ._B_HIGH, np.empty(0), integ._C, False)
        if scheme == 'rk45':
            cls = rk._RK45
            kw = dict(y0=y0, A=cls._A, B_HIGH=cls._B_HIGH, C=cls._C, E=cls._E, P=rk.RK45_P, rtol=rtol, atol=atol, max_step=hmax, min_step=hmin, order=5)
            if event:
                kw.update(t0=tA, tmax=tB, event_fn=g, direction=0, terminal=1, xtol=xtol, gtol=gtol)
                return cls._integrate_rk45_until_event_ham(jac_H=None, clmo_H=None, n_dof=1, **kw) if ham else cls._integrate_rk45_until_event(f=f, **kw)
            kw.update(t_eval=np.array([tA, tB]))
            return cls._integrate_rk45_ham(jac_H=None, clmo_H=None, n_dof=1, **kw) if ham else cls._integrate_rk45(f=f, **kw)
        cls = rk._DOP853
        kw = dict(y0=y0, A=cls._A, B_HIGH=cls._B_HIGH, C=cls._C, E5=cls._E5, E3=cls._E3, D=rk.DOP853_D, n_stages_extended=rk.DOP853_N_STAGES_EXTENDED,
                  interpolator_power=rk.DOP853_INTERPOLATOR_POWER, A_full=rk.DOP853_A, C_full=rk.DOP853_C, rtol=rtol, atol=atol, max_step=hmax, min_step=hmin, order=8)
        if event:
            kw.update(t0=tA, tmax=tB, event_fn=g, direction=0, terminal=1, xtol=xtol, gtol=gtol)
            return cls._integrate_dop853_until_event_ham(jac_H=None, clmo_H=None, n_dof=1, **kw) if ham else cls._integrate_dop853_until_event(f=f, **kw)
        kw.update(t_eval=np.array([tA, tB]))
        return cls._integrate_dop853_ham(jac_H=None, clmo_H=None, n_dof=1, **kw) if ham else cls._integrate_dop853(f=f, **kw)

    def one(ham, f):
        tr.reset()
        try:
            return ('done', call(ham, f), tr.snapshot())
        except D.StopUnwinding:
            return ('cut', None, tr.snapshot())

    def go():
        with D.stubbed(rk, tr, real_dense=False, real_refine=False) as f:
            a = one(False, f)
            b = one(True, f)
        return a, b
    paths = ex.run(go)
    nbad = 0
    for n, p in enumerate(paths):
        base = 'C17/(2)driver-twin/%s/path %d' % (tag, n)
        if isinstance(p.exc, explore.PathAbort):
            continue
        if p.exc is not None:
            chk.fail(base, 'raised %r' % (p.exc,), None)
            continue
        (sa, ra, ta), (sb_, rb, tb) = p.value
        ok = sa == sb_ and len(ta['steps']) == len(tb['steps']) and len(ta['gcalls']) == len(tb['gcalls'])
        if ok:
            for x, z in zip(ta['steps'], tb['steps']):
                ok = ok and same(x['t'], z['t']) and same(x['y'], z['y']) and same(x['h'], z['h'])
            for x, z in zip(ta['gcalls'], tb['gcalls']):
                ok = ok and same(x[0], z[0]) and same(x[1], z[1])
        if ok:
            # the in-step refinement must be asked the same question by both twins: same scalars (times, step, tolerances), same end
            # states and end derivatives, same stage matrix (its answer is an uninterpreted function of the first few only)
            def sig(call):
                args = call[1]
                sc = [x for x in args if isinstance(x, Sym)]
                ar = [x for x in args if hasattr(x, 'shape') and not isinstance(x, Sym) and getattr(x, 'dtype', None) == object]
                return sc, ar
            ok = len(ta['refines']) == len(tb['refines'])
            for x, z in zip(ta['refines'], tb['refines']):
                (s1, a1), (s2, a2) = sig(x), sig(z)
                ok = ok and len(s1) == len(s2) and len(a1) == len(a2) and all(same(u, v) for u, v in zip(s1, s2)) and all(
                    np.asarray(u).shape == np.asarray(v).shape and same(u, v) for u, v in zip(a1, a2))
        if ok and sa == 'done':
            for x, z in zip(ra, rb):
                if isinstance(x, (bool, int)) and not isinstance(x, Sym):
                    ok = ok and bool(x) == bool(z)
                else:
                    ok = ok and same(x, z)
        if ok:
            chk.ok(base, '%s: identical kernel-call traces (%d), event evaluations (%d) and results' % (sa, len(ta['steps']), len(ta['gcalls'])),
                   sample={'status': sa, 'kernel_calls': len(ta['steps'])} if n in (0, 5) else None)
        else:
            nbad += 1
            if nbad <= 2:
                chk.fail(base, 'generic and Hamiltonian drivers diverge (status %s/%s, %d/%d kernel calls, %d/%d refinement calls)' % (sa, sb_, len(ta['steps']), len(tb['steps']), len(ta['refines']), len(tb['refines'])), _replay_twins())
    st = chk.absorb(ex)
    chk.note('driver twins %s: %d product paths' % (tag, st['paths']))


def refine_twins(chk):
    """(2) the in-step refinement of the Hamiltonian DOP853 path carries its own copy of the dense-output construction (extra stages
    13..15 and the interpolation table): on symbolic step data, stages and field, the table handed to the dense evaluator must be the
    one the generic refinement hands over."""
    import hiten.algorithms.integrators.rk as rk
    chk.encode(rk._dop853_refine_in_step, rk._dop853_refine_in_step_ham, rk._dop853_build_dense_cache)
    dim = 1
    t0, h = W.var('t0'), W.var('h')
    y0, y1 = np.array([W.var('ya')]), np.array([W.var('yb')])
    s_used = rk._DOP853._B_HIGH.size + 1
    Kseg = np.array([[W.var('K%d' % r)] for r in range(s_used)])
    F = lambda yv: np.array([opaque('F', *[Sym.lift(v) for v in np.asarray(yv).reshape(-1)])])
    f0, f1 = F(y0), F(y1)

    class Got(Exception):
        pass
    seen = {}

    def eval_dense(y_old, F_cache, power, x):
        seen['F'] = np.array(F_cache).copy()
        seen['y'] = np.array(y_old).copy()
        raise Got()
    saved = (rk._dop853_eval_dense, rk._hamiltonian_rhs)
    rk._dop853_eval_dense = eval_dense
    rk._hamiltonian_rhs = lambda yv, j, c, n: F(yv)
    ex = Explorer(generic_nonzero=True)
    out = {}
    try:
        with explore.activate(ex):
            ex.assume(h > 0)
            common = dict(t0=t0, y0=y0, f0=f0, t1=t0 + h, y1=y1, f1=f1, h=h, Kseg=Kseg, A_full=rk.DOP853_A, C_full=rk.DOP853_C, D=rk.DOP853_D, n_stages_extended=rk.DOP853_N_STAGES_EXTENDED,
                          interpolator_power=rk.DOP853_INTERPOLATOR_POWER, direction=0, xtol=W.var('xtol'), gtol=W.var('gtol'))
            g = lambda t, y: opaque('G', Sym.lift(t), *[Sym.lift(v) for v in y])
            for name, call in (('generic', lambda: rk._dop853_refine_in_step(f=lambda t, y: F(y), event_fn=g, **common)),
                               ('hamiltonian', lambda: rk._dop853_refine_in_step_ham(event_fn=g, jac_H=None, clmo_H=None, n_dof=1, **common))):
                seen.clear()
                try:
                    call()
                except Got:
                    pass
                out[name] = (seen.get('F'), seen.get('y'))
    finally:
        rk._dop853_eval_dense, rk._hamiltonian_rhs = saved
    chk.absorb(ex)
    a, b = out.get('generic'), out.get('hamiltonian')
    ok = a is not None and b is not None and a[0] is not None and b[0] is not None and np.asarray(a[0]).shape == np.asarray(b[0]).shape and same(a[0], b[0]) and same(a[1], b[1])
    rows = [] if ok or a is None or b is None or a[0] is None or b[0] is None or np.asarray(a[0]).shape != np.asarray(b[0]).shape else [r for r in range(np.asarray(a[0]).shape[0]) if not same(a[0][r], b[0][r])]
    oid = 'C17/(2)refine-twin/dop853 dense table'
    if ok:
        chk.ok(oid, 'identical %dx%d interpolation tables (symbolic step, 13 symbolic stages, uninterpreted field) from the generic and the Hamiltonian in-step refinement' % np.asarray(a[0]).shape)
    else:
        chk.fail(oid, 'the Hamiltonian in-step refinement builds a different interpolation table than the generic one (rows %s)' % rows, _replay_twins())


def _replay_twins():
    """Compiled build: a non-separable polynomial Hamiltonian integrated once as a Hamiltonian system (fast paths) and once as a
    generic right-hand-side system built from the same field, for every scheme, with and without events, forward and backward."""
    return D.HAM_PRELUDE + '''
from hiten.algorithms.integrators.rk import AdaptiveRK, RungeKutta
from hiten.algorithms.dynamics.rhs import create_rhs_system
from hiten.algorithms.types.configs import EventConfig
import numba
hs = make_hamsys(0.7, mixed=0.4)
gen = create_rhs_system(hs.rhs, dim=6, name="same field, generic path")
@numba.njit
def g1(t, y): return y[0] - 0.02
@numba.njit
def g2(t, y): return y[4] + 0.05
grid = np.sort(np.unique(np.concatenate([np.linspace(0.0, 6.0, 401), np.array([0.013, 0.5, 0.51, 2.2, 2.25, 4.9])])))     # non-uniform
span = np.array([0.0, 6.0])
bad = {}
for name, integ, tv in (("RK4", RungeKutta(order=4), grid), ("RK6", RungeKutta(order=6), grid), ("RK8", RungeKutta(order=8), grid),
                        ("RK45", AdaptiveRK(order=5, rtol=1e-9, atol=1e-11), span), ("DOP853", AdaptiveRK(order=8, rtol=1e-9, atol=1e-11), span)):
    for label, kw in (("plain", {}), ("event_q1", dict(event_fn=g1, event_cfg=EventConfig(direction=0, terminal=True))), ("event_p2_up", dict(event_fn=g2, event_cfg=EventConfig(direction=1, terminal=True)))):
        a = integ.integrate(hs, Y0.copy(), tv, **kw); b = integ.integrate(gen, Y0.copy(), tv, **kw)
        ta, tb, ya, yb = np.asarray(a.times), np.asarray(b.times), np.asarray(a.states), np.asarray(b.states)
        if ta.shape != tb.shape or float(np.max(np.abs(ta - tb))) > 1e-11 or float(np.max(np.abs(ya - yb))) > 1e-10:
            bad["%s_%s" % (name, label)] = "fast path and generic path differ: |dt|=%.2e |dy|=%.2e" % (float(np.max(np.abs(ta - tb))) if ta.shape == tb.shape else -1.0, float(np.max(np.abs(ya - yb))) if ya.shape == yb.shape else -1.0)
_verdict(bool(bad), **bad)
'''


def dispatch(chk):
    """(3) integrate() selects the Hamiltonian twin exactly when the system satisfies the runtime protocol."""
    import hiten.algorithms.integrators.rk as rk
    import hiten.algorithms.dynamics.base as db
    from hiten.algorithms.dynamics.base import _DynamicalSystem
    from hiten.algorithms.dynamics.protocols import _HamiltonianSystemProtocol
    from hiten.algorithms.dynamics.rhs import create_rhs_system

    class FakeHam(_DynamicalSystem):
        def __init__(self):
            super().__init__(2)
            self.jac_H, self.clmo_H = 'JAC', 'CLMO'
        n_dof = 1

        @property
        def rhs_params(self):
            return ('JAC', 'CLMO', 1)

        def dH_dQ(self, Q, P):
            return Q

        def dH_dP(self, Q, P):
            return P

        def poly_H(self):
            return []

        def _build_rhs_impl(self):
            return lambda t, y: y
    called = []

    def mk(name, ret):
        def drv(*a, **k):
            called.append(name)
            return ret
        return staticmethod(drv)
    st2 = np.array([[W.var('a'), W.var('b')], [W.var('c'), W.var('d')]])
    patches = [(rk._FixedStepRK, '_integrate_fixed_rk', (st2, st2)), (rk._FixedStepRK, '_integrate_fixed_rk_ham', (st2, st2)),
               (rk._RK45, '_integrate_rk45', (st2, st2)), (rk._RK45, '_integrate_rk45_ham', (st2, st2)),
               (rk._DOP853, '_integrate_dop853', (st2, st2)), (rk._DOP853, '_integrate_dop853_ham', (st2, st2))]
    saved = [(c, n, c.__dict__[n]) for c, n, _ in patches]
    for c, n, r in patches:
        setattr(c, n, mk(n, r))
    try:
        y0 = np.array([W.var('u'), W.var('v')])
        tv = np.array([Sym.const(0), Sym.const(1)])
        for label, integ in (('fixed', rk.RungeKutta(order=4)), ('rk45', rk.AdaptiveRK(order=5)), ('dop853', rk.AdaptiveRK(order=8))):
            for sysname, system in (('hamiltonian', FakeHam()), ('generic', create_rhs_system(lambda t, y: y, 2)), ('directed-hamiltonian', db._DirectedSystem(FakeHam(), -1))):
                del called[:]
                with explore.activate(Explorer()):
                    integ.integrate(system, y0, tv)
                is_h = isinstance(system, _HamiltonianSystemProtocol)
                want_ham = is_h
                got_ham = bool(called) and called[0].endswith('_ham')
                oid = 'C17/(3)dispatch/%s/%s' % (label, sysname)
                if got_ham == want_ham:
                    chk.ok(oid, 'protocol instance: %s -> driver %s' % (is_h, called[0]), nontrivial=(sysname != 'generic'))
                else:
                    chk.fail(oid, 'system satisfies protocol: %s but integrate() called %s' % (is_h, called), None)
                if sysname == 'directed-hamiltonian' and not is_h:
                    chk.note('dispatch: a _DirectedSystem wrapping a Hamiltonian system is not a runtime instance of the Hamiltonian protocol (attribute forwarding via __getattr__ '
                             'is invisible to typing.runtime_checkable in Python 3.12): integrate() consistently takes the generic path, which needs hamsys.rhs to be evaluable')
    finally:
        for c, n, v in saved:
            setattr(c, n, v)


def main():
    chk = Check(PID)
    chk.default_replay = _replay_twins
    import hiten.algorithms.integrators.rk as rk
    thorough = chk.tier == 'thorough'
    chk.bound(H='degree <= 3, 13 symbolic coefficients in 3 degrees of freedom (including non-separable q*p terms), symbolic state',
              kernels='straight-line: no bound (dimension 2, arbitrary field)', drivers='product runs unwound to %d kernel calls (DOP853: %d) / 2 grid steps, state dimension 1' % (3 if thorough else 2, 3 if thorough else 1))
    chk.assume('in the driver comparison the step kernels, dense output, refinement, controller helpers, field and event function are the same uninterpreted functions for both twins '
               '(kernel twins are compared separately; DOP853 kernels through their B-series in C02-(4))')
    chk.out_of_scope('polynomial degrees 4..8 (the evaluators are uniform in degree; that is an argument, not a verdict)', 'numba lowering beyond the one evaluation call')
    chk.encode(rk.rk_embedded_step_ham_jit_kernel, rk.rk45_step_ham_jit_kernel, rk._FixedStepRK._integrate_fixed_rk_ham, rk._RK45._integrate_rk45_ham, rk._DOP853._integrate_dop853_ham,
               rk._FixedStepRK._integrate_fixed_rk_until_event_ham, rk._RK45._integrate_rk45_until_event_ham, rk._DOP853._integrate_dop853_until_event_ham)
    rhs_identity(chk)
    rhs_can_be_evaluated(chk)
    kernel_twins(chk)
    ms = 3 if thorough else 2
    for scheme in ('fixed', 'rk45', 'dop853'):
        for event in (False, True):
            # the DOP853 error-norm logic multiplies paths (2 kernel calls with an event: ~2000 product paths, 8-10 min): one kernel call
            # in the quick tier, two in the thorough tier.  A divergence that needs a second accepted DOP853 step (e.g. a stale derivative
            # handed to the in-step refinement) is therefore outside the quick bound here; the refinement-argument contract of C11 covers it.
            driver_twins(chk, scheme, event, (2 if thorough else 1) if scheme == 'dop853' else ms, 2400 if thorough else 400)
    refine_twins(chk)
    dispatch(chk)
    return chk.finish()


if __name__ == '__main__':
    sys.exit(main())

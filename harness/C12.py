"""C12 — invariant-manifold seeds lie on the stable/unstable directions of the orbit."""
from __future__ import annotations

import sys
from fractions import Fraction

from harness.common import *  # noqa: F401,F403
from harness.common import np, Explorer, Check, Sym, W, explore, Stub, normal, prove_zero, model_to_env, fmt_env, opaque, And, Or, Not, Implies, extract_nested
from harness.drivers import same
import engine.symnp as snp

PID = 'C12'


def manifold_section(chk, svc_mod):
    """(1) x0W - x(frac) = d * direction * (Phi_frac v) with d > 0 and position norm = displacement."""
    cls = svc_mod._ManifoldDynamicsService
    chk.encode(cls._compute_manifold_section, cls._totime)
    phi = [[W.var('F%d%d' % (i, j)) for j in range(6)] for i in range(6)]
    xrow = [W.var('o%d' % i) for i in range(6)]
    v = [W.var('v%d' % i) for i in range(6)]
    disp = W.var('displacement')
    PHI = np.zeros((3, 42))
    xx = np.zeros((3, 6))
    for i in range(6):
        xx[1, i] = xrow[i]
        xx[0, i] = W.var('a%d' % i)
        xx[2, i] = W.var('b%d' % i)
        for j in range(6):
            PHI[1, 6 * i + j] = phi[i][j]
            PHI[0, 6 * i + j] = 1.0 if i == j else 0.0
            PHI[2, 6 * i + j] = W.var('G%d%d' % (i, j))
    tt = np.array([0.0, 0.5, 1.0])
    for direction in (1, -1):
        for ttsign in (1, -1):
            ex = Explorer(max_paths=200)
            ex.abs_by_branch = False
            with explore.activate(ex):
                ex.assume(disp > 0)
            svc = Stub(direction=direction, _totime=lambda t, tf: cls._totime(None, t, tf))

            def go():
                return cls._compute_manifold_section(svc, period=1.0, fraction=0.5, displacement=disp, xx=xx, tt=tt * ttsign, PHI=PHI, eigvec=np.array(v))
            paths = ex.run(go)
            Mv = [sum((phi[i][j] * v[j] for j in range(6)), Sym.const(0)) for i in range(6)]
            pos_norm2 = Mv[0] ** 2 + Mv[1] ** 2 + Mv[2] ** 2
            for n, p in enumerate(paths):
                base = 'C12/(1)seed/direction=%+d/times%s/path %d' % (direction, '+' if ttsign > 0 else '-', n)
                if p.exc is not None:
                    chk.fail(base, 'raised %r' % (p.exc,), None)
                    continue
                x0W = p.value
                nrm = pos_norm2.sqrt()
                problems = []
                generic_path = None
                with explore.activate(ex):
                    small = nrm < Fraction(1, 10 ** 14)
                # which branch of the |.| < 1e-14 guard did this path take?  (decided syntactically from the path condition)
                took_small = any(c.z.eq(small.z) for c in p.pc if hasattr(c, 'z'))
                took_big = any(c.z.eq((~small).z) for c in p.pc if hasattr(c, 'z'))
                for i in range(6):
                    if took_small:
                        unsn = xrow[i] + disp * direction * Mv[i]          # magnitude replaced by 1.0 in the degenerate case
                    else:
                        unsn = xrow[i] + disp * direction * Mv[i] / nrm
                    got = Sym.lift(x0W[i])
                    if not normal(got - unsn).t:
                        continue
                    if i in (2, 5) and not got.t:
                        with explore.activate(ex):
                            snapped = abs(unsn) < Fraction(1, 10 ** 15)
                        if any(c.z.eq(snapped.z) for c in p.pc if hasattr(c, 'z')):
                            continue
                        problems.append('component %d set to 0 without the |.| < 1e-15 test' % i)
                    else:
                        problems.append('component %d is %r' % (i, got))
                if not (took_small or took_big):
                    problems.append('degenerate-direction guard not found on the path')
                if not problems:
                    chk.ok(base, 'seed = orbit point + displacement * direction * Phi(frac) v / |(Phi v)_pos|%s: on the transported direction, on the requested side, position offset of norm = displacement; z, vz only snapped to 0 when |.| < 1e-15' % (
                        ' (degenerate |(Phi v)_pos| < 1e-14: magnitude 1)' if took_small else ''), sample={'direction': direction, 'decisions': p.decisions} if n == 0 else None)
                else:
                    chk.fail(base, '; '.join(problems[:2]), _replay_section(direction), None)
            chk.absorb(ex)


def _replay_section(direction):
    return '''
from hiten.algorithms.types.services.manifold import _ManifoldDynamicsService
class S: pass
s = S(); s.direction = %d; s._totime = lambda t, tf: _ManifoldDynamicsService._totime(None, t, tf)
rs = np.random.default_rng(0)
PHI = rs.normal(size=(5, 42)); xx = rs.normal(size=(5, 6)); tt = np.linspace(0.0, 2.0, 5); v = rs.normal(size=6)
x0W = _ManifoldDynamicsService._compute_manifold_section(s, period=2.0, fraction=0.5, displacement=1e-3, xx=xx, tt=tt, PHI=PHI, eigvec=v)
k = 2
Mv = PHI[k, :36].reshape(6, 6) @ v
want = xx[k] + 1e-3 / np.linalg.norm(Mv[:3]) * %d * Mv
_verdict(not np.allclose(x0W, want, atol=1e-12), got=x0W.tolist(), want=want.tolist())
''' % (direction, direction)


def _replay_general():
    """General confirmation on the compiled build: all four branches of an Earth-Moon L1 halo, each computed twice on the same
    object with different arguments; every seed is checked against an independently computed monodromy eigenvector."""
    return '''
import warnings; warnings.filterwarnings("ignore")
from hiten.system import System
from hiten.algorithms.dynamics.rtbp import _compute_stm
l1 = System.from_bodies("earth", "moon").get_libration_point(1)
o = l1.create_orbit("halo", amplitude_z=0.02, zenith="southern"); o.correct(); T = float(o.period)
xx, tt, PhiT, PHI = _compute_stm(o.libration_point.system.var_dynsys, o.initial_state, T, steps=2000, forward=1)
w, V = np.linalg.eig(np.asarray(PhiT, dtype=float))
vu = np.real(V[:, int(np.argmax(np.abs(w)))]); vs = np.real(V[:, int(np.argmin(np.abs(w)))])
bad = {}
def phi_at(f):
    k = int(np.argmin(np.abs(np.asarray(tt) - f * T))); return np.asarray(PHI[k, :36]).reshape(6, 6), np.asarray(xx[k], dtype=float)
seeds = {}
for stable in (True, False):
    for direction in ("positive", "negative"):
        m = o.manifold(stable=stable, direction=direction)
        for npass, (step, disp) in enumerate(((0.25, 1e-6), (0.2, 1e-5))):
            m.compute(step=step, integration_fraction=0.05, displacement=disp, show_progress=False)
            trajs = m.trajectories
            for k, tr in enumerate(trajs):
                st, tm = np.asarray(tr.states, dtype=float), np.asarray(tr.times, dtype=float)
                M, xk = phi_at(k * step)
                d = st[0] - xk; v = M @ (vs if stable else vu)
                tag = "%s_%s_pass%d_seed%d" % ("stable" if stable else "unstable", direction, npass + 1, k)
                if abs(np.linalg.norm(d[:3]) - disp) > 0.02 * disp: bad[tag + "_distance"] = float(np.linalg.norm(d[:3]) / disp)
                c = float(np.dot(d, v) / (np.linalg.norm(d) * np.linalg.norm(v)))
                if abs(abs(c) - 1.0) > 1e-3: bad[tag + "_direction"] = c
                seeds[(stable, direction, npass, k)] = np.sign(c)
                if len(tm) > 1 and np.sign(tm[-1] - tm[0]) != (-1 if stable else 1): bad[tag + "_time_sense"] = [float(tm[0]), float(tm[-1])]
for (stable, direction, npass, k), sg in seeds.items():
    other = seeds.get((stable, "negative" if direction == "positive" else "positive", npass, k))
    if other is not None and other == sg: bad["%s_pass%d_seed%d_sides" % ("stable" if stable else "unstable", npass + 1, k)] = "positive and negative branch on the same side"
    first = seeds.get((stable, direction, 0, 0))
    if k == 0 and first is not None and first != sg: bad["%s_%s_side_changes_between_computes" % ("stable" if stable else "unstable", direction)] = [float(first), float(sg)]
_verdict(bool(bad), **{k: bad[k] for k in list(bad)[:8]})
'''


def direction_and_filters(chk, svc_mod):
    """(2) forward = -stable and the propagation receives it (all six components reversed); (4) the STM whose history and
    end value feed the seeds is the FORWARD one of the orbit; (5) retained trajectories passed the energy filter."""
    cls = svc_mod._ManifoldDynamicsService
    chk.encode(cls.__init__, cls.compute_stm, cls._run_compute, cls.compute_stability)
    import hiten.algorithms.common.energy as en
    for stable in (True, False):
        for direction in ('positive', 'negative'):
            tag = '%s/%s' % ('stable' if stable else 'unstable', direction)
            dom = Stub(_stable=stable, _direction=direction, _generating_orbit=Stub(period=W.var('period'), initial_state='X0', libration_point=Stub(system=Stub(
                mu=W.var('mu'), dynsys='DYN', var_dynsys='VAR', distance=W.var('dist'), primary=Stub(radius=W.var('rp')), secondary=Stub(radius=W.var('rs'))))))
            svc = object.__new__(cls)
            try:
                cls.__init__(svc, dom)
            except Exception as e:   # noqa
                chk.fail('C12/(2)init/%s' % tag, 'service construction failed on the stand-in manifold: %r' % (e,), None)
                continue
            ok = svc.forward == (-1 if stable else 1) and svc.direction == (1 if direction == 'positive' else -1) and svc.stable == (1 if stable else -1)
            (chk.ok if ok else (lambda o, d: chk.fail(o, d, _replay_direction())))('C12/(2)forward=-stable/%s' % tag, 'stable branches integrate backward (forward=%d), side = %+d' % (svc.forward, svc.direction))
            # (4) which matrix
            calls = []
            saved = svc_mod._compute_stm
            svc_mod._compute_stm = lambda dynsys, x0, tf, **k: calls.append((dynsys, x0, tf, k)) or ('xx', 'tt', 'PHI_T', 'PHI')
            svc.get_or_create = lambda key, fac: fac()
            svc.make_key = lambda *a: a
            try:
                r = cls.compute_stm(svc, steps=7)
            finally:
                svc_mod._compute_stm = saved
            okm = calls and calls[0][0] == 'VAR' and calls[0][1] == 'X0' and same(calls[0][2], dom._generating_orbit.period) and calls[0][3].get('forward', 1) == 1 and calls[0][3].get('steps') == 7
            oid = 'C12/(4)which-matrix/%s' % tag
            if okm:
                chk.ok(oid, 'the variational system is integrated FORWARD over one period from the orbit\'s own initial state: PHI(frac) transports eigenvectors of the true monodromy matrix along the sampled orbit points')
            else:
                chk.fail(oid, 'compute_stm integrates with %r: eigenvectors are taken from a matrix that is not the monodromy matrix of the sampled flow' % (calls[0][3] if calls else None), _replay_which_matrix(), None)
            # stability uses phi_T of that very STM
            got = {}
            svc.compute_stm = lambda steps: ('xx', 'tt', 'PHI_T', 'PHI')
            svc._generator = Stub(compute=lambda domain_obj, options: got.update(M=domain_obj))
            svc._eigendecomposition_options = Stub(to_dict=lambda: {})
            svc._eigendecomposition_config = 'ECFG'
            saved_sp = svc_mod.StabilityPipeline        # the service builds one pipeline per cached decomposition
            svc_mod.StabilityPipeline = Stub(with_default_engine=lambda config=None, **k: Stub(compute=lambda domain_obj, options: got.update(M=domain_obj)))
            try:
                cls.compute_stability(svc)
            finally:
                svc_mod.StabilityPipeline = saved_sp
            (chk.ok if got.get('M') == 'PHI_T' else (lambda o, d: chk.fail(o, d, None)))('C12/(4)stability-of-phi_T/%s' % tag, 'the eigen-decomposition receives the end value of the same STM', nontrivial=False)
            # (2),(5) _run_compute: propagation arguments and filters
            rec = []
            states = np.array([[W.var('s%d_%d' % (r_, c)) for c in range(6)] for r_ in range(2)])
            err = W.var('energy_err')
            etol, sd = W.vars('energy_tol safe_distance')
            ex = Explorer(max_paths=300)
            ex.abs_by_branch = False
            with explore.activate(ex):
                for c in (etol > 0, sd >= 0, W.var('dist') > 0, W.var('rp') > 0, W.var('rs') > 0):
                    ex.assume(c)
            svc.compute_stm = lambda steps: (np.zeros((2, 6)), np.array([0.0, 1.0]), 'PHI_T', np.zeros((2, 42)))
            svc._compute_manifold_section = lambda **k: Stub(astype=lambda t: np.array([W.var('w%d' % i) for i in range(6)]))
            vec = np.array([[W.var('e%d' % i)] for i in range(6)])
            svc.compute_stability = lambda options=None: Stub(eigenvalues=(np.array([W.var('ls')]), np.array([W.var('lu')]), None), eigenvectors=(vec, vec * 2, None),
                                                               get_real_eigenvectors=lambda Wm, vals: (vals, Wm))
            saved_p, saved_e = svc_mod._propagate_dynsys, svc_mod._max_rel_energy_error
            svc_mod._propagate_dynsys = lambda **k: rec.append(k) or Stub(times=np.array([0.0, 1.0]), states=states)
            svc_mod._max_rel_energy_error = lambda st, mu_: err

            def go():
                del rec[:]
                return cls._run_compute(svc, step=0.5, integration_fraction=0.1, NN=1, displacement=1e-6, method='adaptive', order=8, dt=0.01, energy_tol=etol, safe_distance=sd, show_progress=False), list(rec)
            try:
                paths = ex.run(go)
            finally:
                svc_mod._propagate_dynsys, svc_mod._max_rel_energy_error = saved_p, saved_e
            okp = True
            oke = True
            for p in paths:
                if p.exc is not None:
                    okp = False
                    continue
                (ysos, dysos, sl, tl, succ, att), rc = p.value
                for k in rc:
                    okp = okp and k['forward'] == (-1 if stable else 1) and k['flip_indices'] == slice(0, 6) and k['dynsys'] == 'DYN' and same(k['state0'], [W.var('w%d' % i) for i in range(6)])
                if sl:
                    with explore.activate(ex):
                        goal = err <= etol
                    v_, m = ex.prove(p, goal)
                    oke = oke and v_ == 'unsat' and succ == len(sl) and att == 2
            chk.absorb(ex)
            (chk.ok if okp else (lambda o, d: chk.fail(o, d, _replay_direction())))('C12/(2)propagation-arguments/%s' % tag, 'every seed is propagated with forward=%d, all six components reversed for backward runs, from the seed state' % (-1 if stable else 1))
            (chk.ok if oke else (lambda o, d: chk.fail(o, d, None)))('C12/(5)energy-filter/%s' % tag, 'a trajectory is retained only if its maximal relative Jacobi error <= energy_tol (and counted as success)')
    # (5) the quantity filtered is a first integral: _max_rel_energy_error._jacobi has zero Lie derivative (decided in C01-(3)); relation to the returned error
    mu = W.var('mu')
    X = [W.var(n) for n in 'x y z vx vy vz'.split()]
    jac2 = extract_nested(en._max_rel_energy_error, '_jacobi', {'mu1': 1 - mu, 'mu2': mu})
    import hiten.algorithms.dynamics.rtbp as rtbp
    exj = Explorer()
    with explore.activate(exj):
        g = Sym.lift(jac2(*X))
        f = rtbp._crtbp_accel(np.array(X), mu)
        dG = sum((g.diff(X[i]) * Sym.lift(f[i]) for i in range(6)), Sym.const(0))
        v_, m, info = prove_zero(exj, dG)
    (chk.ok if v_ == 'unsat' else (lambda o, d: chk.fail(o, d, None)))('C12/(5)filtered-quantity-is-a-first-integral', 'the Jacobi formula inside _max_rel_energy_error has zero derivative along the CR3BP field')
    chk.absorb(exj)


def _replay_direction():
    return '''
from hiten.system import System
s = System.from_bodies("earth", "moon"); l1 = s.get_libration_point(1)
o = l1.create_orbit("halo", amplitude_z=0.02, zenith="southern"); o.correct()
bad = []
for stable in (True, False):
    m = o.manifold(stable=stable, direction="positive")
    fw = m.dynamics.forward
    if fw != (-1 if stable else 1): bad.append((stable, fw))
_verdict(bool(bad), wrong_direction=bad)
'''


def _replay_which_matrix():
    return '''
from hiten.system import System
from hiten.algorithms.dynamics.rtbp import _compute_stm
s = System.from_bodies("earth", "moon"); l1 = s.get_libration_point(1)
o = l1.create_orbit("halo", amplitude_z=0.02, zenith="southern"); o.correct()
m = o.manifold(stable=True, direction="positive")
xx, tt, phi_T, PHI = m.dynamics.compute_stm(steps=500)
_, _, M, _ = _compute_stm(s.var_dynsys, o.initial_state, o.period, steps=500)
err = float(np.max(np.abs(phi_T - M)) / np.max(np.abs(M)))
_verdict(err > 1e-6, relative_difference_from_monodromy=err)
'''


def classification(chk):
    """(3) a vector is offered as stable (unstable) only if it is an eigenvector of the given matrix with |lambda| < 1 - delta (> 1 + delta)."""
    from hiten.algorithms.linalg.backend import _LinalgBackend
    from hiten.algorithms.linalg.types import _SystemType
    from hiten.algorithms.linalg.base import StabilityPipeline
    chk.encode(_LinalgBackend.eigenvalue_decomposition, _LinalgBackend._classify_eigenvalue, _LinalgBackend._sort_eigenvalues, StabilityPipeline.get_real_eigenvectors)
    n = 3
    lam = [W.var('lam%d' % k) for k in range(n)]
    V = [[W.var('V%d%d' % (i, k)) for k in range(n)] for i in range(n)]
    delta = W.var('delta')
    ex = Explorer(max_paths=400, generic_nonzero=True)
    with explore.activate(ex):
        ex.assume(delta > 0)
        ex.assume(delta < 1)
    saved = dict(snp.LINALG_STUBS)
    snp.LINALG_STUBS['eig'] = lambda A: (np.array(list(lam)), np.array(V))
    be = _LinalgBackend(system_type=_SystemType.DISCRETE)
    A = np.array([[W.var('A%d%d' % (i, j)) for j in range(n)] for i in range(n)])
    try:
        paths = ex.run(lambda: be.eigenvalue_decomposition(A, delta))
    finally:
        snp.LINALG_STUBS.clear()
        snp.LINALG_STUBS.update(saved)
    ok_all = True
    for pth in paths:
        if pth.exc is not None:
            ok_all = False
            continue
        sn, un, cn, Ws, Wu, Wc = pth.value
        with explore.activate(ex):
            goals = []
            struct = True
            for vals, vecs, kind in ((sn, Ws, 's'), (un, Wu, 'u')):
                for c in range(len(vals)):
                    val = Sym.lift(vals[c]).real
                    ks = [k for k in range(n) if same(val, lam[k])]
                    if not ks:
                        struct = False
                        continue
                    k = ks[0]
                    w = [Sym.lift(vecs[i, c]) for i in range(n)]
                    # w proportional to the k-th eigenvector returned by the eigen-solver (so M w = lam_k w by its contract)
                    for i in range(n):
                        for j in range(i + 1, n):
                            struct = struct and not normal(w[i].real * V[j][k] - w[j].real * V[i][k]).t and not w[i].imag.t
                    goals.append((val * val < (1 - delta) ** 2) if kind == 's' else (val * val > (1 + delta) ** 2))
        v_, m, kk = ex.prove_all(pth, goals)
        ok_all = ok_all and struct and v_ == 'unsat'
    chk.absorb(ex)
    (chk.ok if ok_all else (lambda o, d: chk.fail(o, d, None)))('C12/(3)classification', '%d paths (3 real eigenvalues, symbolic): every vector offered as stable/unstable is a scalar multiple of an eigenvector returned for an eigenvalue with |lambda| < 1-delta / > 1+delta; list positions of values and vectors agree' % len(paths))


def main():
    chk = Check(PID)
    chk.default_replay = _replay_general
    from hiten.algorithms.types.services import manifold as svc_mod
    chk.bound(section='symbolic 6x6 transported matrix, eigenvector, orbit point, displacement; both sides; forward and negated time stamps', classification='3x3 matrices with real symbolic spectrum',
              run_compute='2 phase fractions, trajectories of 2 samples')
    chk.assume('propagation, the STM integration and the eigen-solver are stubs (contracts: eig returns eigenpairs); cleaning thresholds on the generic side')
    chk.out_of_scope('that PHI(frac) v is numerically the Floquet direction at that phase (integration accuracy, C02/C03)', 'complex eigen-pairs (only real eigenvectors are used for seeds)')
    manifold_section(chk, svc_mod)
    direction_and_filters(chk, svc_mod)
    classification(chk)
    return chk.finish()


if __name__ == '__main__':
    sys.exit(main())

"""C06 — polynomial algebra is exact and independent of thread scheduling."""
from __future__ import annotations

import math
import sys
import time
from fractions import Fraction

import z3

from harness.common import *  # noqa: F401,F403
from harness.common import np, Explorer, Check, Sym, W, explore, rng, validate
from harness import polyref as R
from engine.bv import BV
from engine import loader
import numpy as rnp

PID = 'C06'


# --------------------------------------------------------------------------- layout

def layout(chk, thorough):
    import hiten.algorithms.polynomial.base as pb
    chk.encode(pb._pack_multiindex, pb._decode_multiindex, pb._fill_exponents, pb._encode_multiindex, pb._init_index_tables, pb._combinations, pb._create_encode_dict_from_clmo)
    ex = Explorer(query_timeout_ms=120000)
    k = [BV.var('k%d' % i) for i in range(6)]
    d = BV.var('deg')
    rng_ok = [z3.And(k[i].z >= 0, k[i].z <= 63) for i in range(1, 6)]
    packed = pb._pack_multiindex(k)
    # (1) decode(pack(k)) = k for all k_1..k_5 in [0, 63] and k_0 = degree - sum
    clmo_fake = {7: {3: packed}}
    dec = pb._decode_multiindex(3, 7, clmo_fake)
    # with degree = 7 concrete the first component must be 7 - sum(k1..k5); check the five packed fields and k0 relation
    goal = z3.And(*[dec[i].z == k[i].z for i in range(1, 6)] + [dec[0].z == 7 - (k[1].z + k[2].z + k[3].z + k[4].z + k[5].z)])
    v, m = ex.check(rng_ok + [z3.Not(goal)], ())
    (chk.ok if v == 'unsat' else (lambda o, dd: chk.fail(o, dd, _replay_pack(m, k) if m is not None else None)))(
        'C06/layout(1)/decode(pack(k)) = k', 'QF_BV: all k_1..k_5 in [0,63]; k_0 = degree - sum(k_1..k_5)', )
    out = [BV.var('o%d' % i) for i in range(6)]

    class Out:
        def __init__(self):
            self.v = [None] * 6

        def __setitem__(self, i, val):
            self.v[i] = val

        def __getitem__(self, i):
            return self.v[i]
    o = Out()
    pb._fill_exponents(3, 7, clmo_fake, o)
    goal2 = z3.And(*[o[i].z == dec[i].z for i in range(6)])
    v, m = ex.check(rng_ok + [z3.Not(goal2)], ())
    (chk.ok if v == 'unsat' else (lambda oo, dd: chk.fail(oo, dd, _replay_fill(m, k) if m is not None else None)))('C06/layout(1)/_fill_exponents = _decode_multiindex', 'QF_BV equivalence of the two decoders')
    # (2) injectivity on {k >= 0, sum k = d <= 30}
    k2 = [BV.var('j%d' % i) for i in range(6)]
    packed2 = pb._pack_multiindex(k2)
    dom = []
    for kk in (k, k2):
        dom += [z3.And(kk[i].z >= 0, kk[i].z <= 30) for i in range(6)]
        dom.append(kk[0].z + kk[1].z + kk[2].z + kk[3].z + kk[4].z + kk[5].z == d.z)
    dom += [d.z >= 0, d.z <= 30]
    v, m = ex.check(dom + [packed.z == packed2.z, z3.Or(*[k[i].z != k2[i].z for i in range(6)])], ())
    (chk.ok if v == 'unsat' else (lambda oo, dd: chk.fail(oo, dd, _replay_pack(m, k) if m is not None else None)))(
        'C06/layout(2)/pack injective on {k >= 0, sum k = d}, d <= 30', 'QF_BV: two different multi-indices of the same degree never share a packed value')
    # packed value fits the table dtype (uint32) and is non-negative
    v, m = ex.check(rng_ok + [z3.Or(packed.z < 0, packed.z >= 2 ** 32)], ())
    (chk.ok if v == 'unsat' else (lambda oo, dd: chk.fail(oo, dd, None)))('C06/layout(2)/packed value in [0, 2^32)', 'no truncation when stored as uint32')
    chk.absorb(ex)

    # (3) the table enumerates exactly {k >= 0, sum k = d}: finite, exhaustive over the table built by the real loop nest
    maxd = 30 if thorough else 14
    t0 = time.time()
    psi, clmo = pb._PSI_GLOBAL, pb._CLMO_GLOBAL
    enc = pb._ENCODE_DICT_GLOBAL
    bad = []
    total = 0
    for dg in range(maxd + 1):
        arr = rnp.asarray(clmo[dg], dtype=rnp.int64)
        n = math.comb(dg + 5, 5)
        if int(psi[6, dg]) != n or len(arr) != n or pb._combinations(dg + 5, 5) != n:
            bad.append('degree %d: %d slots, psi %d, _combinations %d, expected C(d+5,5) = %d' % (dg, len(arr), int(psi[6, dg]), pb._combinations(dg + 5, 5), n))
            continue
        ks = [(arr >> (6 * i)) & 0x3F for i in range(5)]
        k0 = dg - sum(ks)
        if (k0 < 0).any() or len(rnp.unique(arr)) != n:
            bad.append('degree %d: a slot has negative k0 or two slots share a packed value' % dg)
        # encode(decode(pos)) = pos through hiten's own dictionary
        e = enc[dg]
        if any(int(e[int(pv)]) != pos for pos, pv in enumerate(arr[:4000])) or len(e) != n:
            bad.append('degree %d: encode dictionary is not the inverse of the table' % dg)
        total += n
    oid = 'C06/layout(3)/table = all multi-indices of each degree <= %d, each once; encode o decode = id' % maxd
    if bad:
        chk.fail(oid, '; '.join(bad[:3]), '''
from hiten.algorithms.polynomial.base import _init_index_tables, _create_encode_dict_from_clmo, _encode_multiindex, _decode_multiindex
import math
psi, clmo = _init_index_tables(10); enc = _create_encode_dict_from_clmo(clmo)
bad = []
for d in range(11):
    seen = set()
    for pos in range(len(clmo[d])):
        k = tuple(int(x) for x in _decode_multiindex(pos, d, clmo))
        if min(k) < 0 or sum(k) != d or k in seen or _encode_multiindex(np.array(k, dtype=np.int64), d, enc) != pos: bad.append((d, pos, k))
        seen.add(k)
    if len(seen) != math.comb(d + 5, 5): bad.append((d, 'count', len(seen)))
_verdict(bool(bad), first=bad[:3])
''')
    else:
        chk.ok(oid, 'exhaustive over %d table slots: count = C(d+5,5) = psi = _combinations, all packed values distinct with k0 >= 0 (with (1),(2): a bijection onto the multi-index set); '
                    'hiten\'s encode dictionary inverts the table (%.1f s)' % (total, time.time() - t0), sample={'degrees': maxd, 'slots': total})
    # _combinations intermediate values stay below 2^63 for d <= 30 (int64 semantics of the compiled code)
    worst = 0
    for dg in range(31):
        n, kk = dg + 5, 5
        if kk > n // 2:
            kk = n - kk
        res = 1
        for i in range(1, kk + 1):
            worst = max(worst, res * (n - i + 1))
            res = res * (n - i + 1) // i
    (chk.ok if worst < 2 ** 63 else (lambda oo, dd: chk.fail(oo, dd, None)))('C06/layout(3)/_combinations has no int64 overflow for d <= 30', 'largest intermediate %d' % worst, nontrivial=False)


def _replay_fill(m, k):
    vals = [m.eval(x.z, model_completion=True).as_signed_long() for x in k]
    return '''
from hiten.algorithms.polynomial.base import _pack_multiindex, _fill_exponents
from numba.typed import List
k = np.array(%r, dtype=np.int64)
packed = _pack_multiindex(k)
l = List(); l.append(np.array([packed], dtype=np.uint32))
out = np.zeros(6, dtype=np.int64)
_fill_exponents(0, 0, l, out)
_verdict(tuple(int(x) for x in out[1:]) != tuple(int(x) for x in k[1:]), k=k.tolist(), filled=[int(x) for x in out])
''' % (vals,)


def _replay_pack(m, k):
    vals = [m.eval(x.z, model_completion=True).as_signed_long() for x in k]
    return '''
from hiten.algorithms.polynomial.base import _pack_multiindex, _decode_multiindex
from numba.typed import List
k = np.array(%r, dtype=np.int64)
packed = _pack_multiindex(k)
l = List(); l.append(np.array([packed], dtype=np.uint32))
dec = _decode_multiindex(0, 0, l)
_verdict(tuple(int(x) for x in dec[1:]) != tuple(int(x) for x in k[1:]), k=k.tolist(), decoded=[int(x) for x in dec])
''' % (vals,)


# --------------------------------------------------------------------------- algebra

SUPPORTS = {
    'A': {1: [(1, 0, 0, 0, 0, 0), (0, 0, 0, 0, 1, 0)], 2: [(1, 0, 0, 1, 0, 0), (0, 2, 0, 0, 0, 0), (0, 0, 1, 0, 0, 1)]},
    'B': {0: [(0, 0, 0, 0, 0, 0)], 1: [(0, 1, 0, 0, 0, 0), (0, 0, 0, 1, 0, 0)], 2: [(0, 0, 0, 2, 0, 0), (1, 0, 1, 0, 0, 0), (0, 1, 0, 0, 1, 0)]},
}


def dense_deg1(prefix):
    return {1: [tuple(1 if j == i else 0 for j in range(6)) for i in range(6)]}


def algebra(chk, thorough):
    import hiten.algorithms.polynomial.base as pb
    import hiten.algorithms.polynomial.algebra as pa
    import hiten.algorithms.polynomial.operations as po
    chk.encode(pa._poly_add, pa._poly_scale, pa._poly_mul, pa._poly_diff, pa._poly_poisson, pa._poly_integrate, pa._poly_evaluate, pa._poly_clean,
               po._polynomial_multiply, po._polynomial_power, po._polynomial_poisson_bracket, po._polynomial_differentiate, po._polynomial_jacobian,
               po._polynomial_integrate, po._polynomial_evaluate, po._substitute_linear, po._substitute_affine, po._polynomial_add_inplace, po._linear_variable_polys)
    MAXD = 6 if thorough else 4
    psi, clmo = pb._init_index_tables(MAXD + 1)
    enc = pb._create_encode_dict_from_clmo(clmo)
    tables = (psi, clmo, enc)
    ex = Explorer(generic_nonzero=True)
    results = []

    def cmp(name, got_dict, want_dict, note=''):
        ok, key = R.same_poly(got_dict, want_dict)
        oid = 'C06/algebra/%s' % name
        if ok:
            # the residual of every coefficient normalises to 0: discharge the (trivial) query for the record
            s = z3.Solver()
            s.add(z3.RealVal(0) != 0)
            ex.nq += 1
            s.check()
            chk.ok(oid, 'all %d coefficients equal the reference (%s)' % (len(want_dict), note), sample={'op': name, 'coefficients': len(want_dict)} if len(results) in (0, 4) else None)
        else:
            chk.fail(oid, 'coefficient of monomial %s is %r, reference %r' % (key, got_dict.get(key), want_dict.get(key)), _replay_algebra(name), None)
        results.append(ok)

    with explore.activate(ex):
        for cplx in (False, True):
            tag = 'complex' if cplx else 'real'
            A, Ar = R.make_sym_poly(tables, SUPPORTS['A'], 'a' + tag[0], cplx)
            B, Br = R.make_sym_poly(tables, SUPPORTS['B'], 'b' + tag[0], cplx)
            A += [pb._make_poly(d, psi) for d in range(len(A), MAXD + 1)]
            B += [pb._make_poly(d, psi) for d in range(len(B), MAXD + 1)]
            # block-level kernels
            out = np.zeros(len(A[2]), dtype=np.complex128)
            pa._poly_add(A[2], B[2], out)
            cmp('_poly_add/%s' % tag, R.from_block(out, 2, clmo), R.padd(R.by_degree(Ar, 2, 2), R.by_degree(Br, 2, 2)))
            al = W.var('alpha_' + tag)
            pa._poly_scale(A[2], al, out)
            cmp('_poly_scale/%s' % tag, R.from_block(out, 2, clmo), R.pscale(R.by_degree(Ar, 2, 2), al))
            for da, db_ in ((1, 1), (1, 2), (2, 2)):
                r = pa._poly_mul(A[da], da, B[db_], db_, psi, clmo, enc)
                cmp('_poly_mul deg %dx%d/%s' % (da, db_, tag), R.from_block(r, da + db_, clmo), R.pmul(R.by_degree(Ar, da, da), R.by_degree(Br, db_, db_)))
            for var in (0, 3, 4):
                r = pa._poly_diff(A[2], var, 2, psi, clmo, enc)
                cmp('_poly_diff var %d/%s' % (var, tag), R.from_block(r, 1, clmo), R.pdiff(R.by_degree(Ar, 2, 2), var))
                r = pa._poly_integrate(A[2], var, 2, psi, clmo, enc)
                cmp('_poly_integrate var %d/%s' % (var, tag), R.from_block(r, 3, clmo), R.pint(R.by_degree(Ar, 2, 2), var))
            r = pa._poly_poisson(A[2], 2, B[2], 2, psi, clmo, enc)
            cmp('_poly_poisson deg 2x2/%s' % tag, R.from_block(r, 2, clmo), R.ppoisson(R.by_degree(Ar, 2, 2), R.by_degree(Br, 2, 2)))
            r = pa._poly_poisson(A[1], 1, B[2], 2, psi, clmo, enc)
            cmp('_poly_poisson deg 1x2/%s' % tag, R.from_block(r, 1, clmo), R.ppoisson(R.by_degree(Ar, 1, 1), R.by_degree(Br, 2, 2)))
            X = [W.var('x%d' % i) for i in range(6)]
            val = pa._poly_evaluate(A[2], 2, np.array(X), clmo)
            ok = not normal(Sym.lift(val) - R.peval(R.by_degree(Ar, 2, 2), X)).t
            (chk.ok if ok else (lambda o, d: chk.fail(o, d, None)))('C06/algebra/_poly_evaluate/%s' % tag, 'value at a symbolic point equals sum a_k x^k')
            # list-level operations
            prod = po._polynomial_multiply(A, B, MAXD, psi, clmo, enc)
            cmp('_polynomial_multiply/%s' % tag, R.from_blocks(prod, clmo), R.pmul(Ar, Br, MAXD), 'degrees <= %d' % MAXD)
            pw = po._polynomial_power(A, 2, MAXD, psi, clmo, enc)
            cmp('_polynomial_power k=2/%s' % tag, R.from_blocks(pw, clmo), R.ppow(Ar, 2, MAXD))
            if not cplx:
                pw3 = po._polynomial_power(A, 3, MAXD, psi, clmo, enc)
                cmp('_polynomial_power k=3/%s' % tag, R.from_blocks(pw3, clmo), R.ppow(Ar, 3, MAXD), 'truncated at degree %d' % MAXD)
            pbk = po._polynomial_poisson_bracket(A, B, MAXD, psi, clmo, enc)
            cmp('_polynomial_poisson_bracket/%s' % tag, R.from_blocks(pbk, clmo), R.ppoisson(Ar, Br, MAXD))
            dA, _ = po._polynomial_differentiate(A, 3, MAXD, psi, clmo, psi, clmo, enc)
            cmp('_polynomial_differentiate var 3/%s' % tag, R.from_blocks(dA, clmo), R.pdiff(Ar, 3))
            jac = po._polynomial_jacobian(A, MAXD, psi, clmo, enc)
            okj = all(R.same_poly(R.from_blocks(jac[i], clmo), R.pdiff(Ar, i))[0] for i in range(6))
            (chk.ok if okj else (lambda o, d: chk.fail(o, d, None)))('C06/algebra/_polynomial_jacobian/%s' % tag, 'entry i = d/dx_i for all six variables')
            iA, _ = po._polynomial_integrate(A[:MAXD], 1, MAXD - 1, psi, clmo, psi, clmo, enc)
            cmp('_polynomial_integrate var 1/%s' % tag, R.from_blocks(iA, clmo), R.pint(Ar, 1))
            val = po._polynomial_evaluate(A, np.array(X), clmo)
            ok = not normal(Sym.lift(val) - R.peval(Ar, X)).t
            (chk.ok if ok else (lambda o, d: chk.fail(o, d, None)))('C06/algebra/_polynomial_evaluate/%s' % tag, 'value at a symbolic point')
        # dense degree-1 x degree-1
        L1, L1r = R.make_sym_poly(tables, dense_deg1('l'), 'l')
        L2, L2r = R.make_sym_poly(tables, dense_deg1('m'), 'm')
        r = pa._poly_mul(L1[1], 1, L2[1], 1, psi, clmo, enc)
        cmp('_poly_mul dense 1x1 (36 products onto 21 slots)', R.from_block(r, 2, clmo), R.pmul(L1r, L2r))
        # substitution P(Cx) and P(Cx + s) with a sparse symbolic matrix, degree <= 3
        SD = 3
        Pb, Pr = R.make_sym_poly(tables, {1: [(0, 1, 0, 0, 0, 0)], 2: [(1, 0, 0, 1, 0, 0), (0, 0, 2, 0, 0, 0)], 3: [(1, 1, 0, 0, 0, 1)]}, 'p')
        Pb += [pb._make_poly(d, psi) for d in range(len(Pb), SD + 1)]
        Cm = [[0.0] * 6 for _ in range(6)]
        Cs = {}
        for (i, j) in ((0, 0), (0, 3), (1, 1), (2, 2), (2, 5), (3, 0), (3, 3), (4, 4), (5, 2), (5, 5)):
            Cs[(i, j)] = W.var('C%d%d' % (i, j))
            Cm[i][j] = Cs[(i, j)]
        Cn = np.array(Cm)
        sub = po._substitute_linear(Pb[:SD + 1], Cn, SD, psi, clmo, enc)
        cmp('_substitute_linear P(Cx), degree <= 3', R.from_blocks(sub, clmo), R.psubs_linear(Pr, Cm, None, SD), '10 symbolic matrix entries')
        sh = [W.var('s0'), 0.0, W.var('s2'), 0.0, 0.0, W.var('s5')]
        sub2 = po._substitute_affine(Pb[:SD + 1], Cn, np.array(sh), SD, psi, clmo, enc)
        cmp('_substitute_affine P(Cx + s), degree <= 3', R.from_blocks(sub2, clmo), R.psubs_linear(Pr, Cm, sh, SD), '10 matrix entries, 3 shifts')
        # the same with COMPLEX coefficients in the polynomial (the conversions to complex normal-form coordinates feed such inputs)
        Pcb, Pcr = R.make_sym_poly(tables, {1: [(0, 1, 0, 0, 0, 0)], 2: [(1, 0, 0, 1, 0, 0), (0, 0, 2, 0, 0, 0)], 3: [(1, 1, 0, 0, 0, 1)]}, 'pc', complex_coeffs=True)
        Pcb += [pb._make_poly(d, psi) for d in range(len(Pcb), SD + 1)]
        subc = po._substitute_linear(Pcb[:SD + 1], Cn, SD, psi, clmo, enc)
        cmp('_substitute_linear P(Cx), complex coefficients', R.from_blocks(subc, clmo), R.psubs_linear(Pcr, Cm, None, SD), 'real and imaginary parts symbolic')
        subc2 = po._substitute_affine(Pcb[:SD + 1], Cn, np.array(sh), SD, psi, clmo, enc)
        cmp('_substitute_affine P(Cx + s), complex coefficients', R.from_blocks(subc2, clmo), R.psubs_linear(Pcr, Cm, sh, SD), 'real and imaginary parts symbolic')
    st = chk.absorb(ex)
    chk.assume('zero-skip guards and cleaning thresholds are taken on the generic side for symbolic coefficients (%d decisions); structurally absent monomials are concrete zeros and exercise the skipping side' % st['generic_nonzero_notes'])
    return tables


def _replay_algebra(name):
    return '''
# differential replay of the polynomial kernels on the compiled build against a dictionary reference, random coefficients
from hiten.algorithms.polynomial.base import _init_index_tables, _create_encode_dict_from_clmo, _decode_multiindex, _make_poly
from hiten.algorithms.polynomial.algebra import _poly_mul, _poly_diff, _poly_poisson, _poly_integrate
from hiten.algorithms.polynomial.operations import _polynomial_multiply, _polynomial_poisson_bracket, _substitute_linear
psi, clmo = _init_index_tables(6); enc = _create_encode_dict_from_clmo(clmo)
rs = np.random.default_rng(0)
def rnd(d):
    a = _make_poly(d, psi); a[:] = rs.normal(size=a.shape) + 1j * rs.normal(size=a.shape); return a
def todict(a, d):
    return {tuple(int(x) for x in _decode_multiindex(i, d, clmo)): a[i] for i in range(len(a)) if a[i] != 0}
def dmul(a, b):
    r = {}
    for ka, va in a.items():
        for kb, vb in b.items():
            k = tuple(x + y for x, y in zip(ka, kb)); r[k] = r.get(k, 0) + va * vb
    return r
def ddiff(a, v):
    return {tuple(x - (1 if i == v else 0) for i, x in enumerate(k)): c * k[v] for k, c in a.items() if k[v] > 0}
def close(a, b):
    return all(abs(a.get(k, 0) - b.get(k, 0)) < 1e-9 for k in set(a) | set(b))
p, q = rnd(2), rnd(2)
bad = []
if not close(todict(_poly_mul(p, 2, q, 2, psi, clmo, enc), 4), dmul(todict(p, 2), todict(q, 2))): bad.append('_poly_mul')
for v in range(6):
    if not close(todict(_poly_diff(p, v, 2, psi, clmo, enc), 1), ddiff(todict(p, 2), v)): bad.append('_poly_diff %%d' %% v)
    ip = todict(_poly_integrate(p, v, 2, psi, clmo, enc), 3)
    if not close(ddiff(ip, v), todict(p, 2)): bad.append('_poly_integrate %%d' %% v)
pb = {}
for i in range(3):
    for k, c in dmul(ddiff(todict(p, 2), i), ddiff(todict(q, 2), i + 3)).items(): pb[k] = pb.get(k, 0) + c
    for k, c in dmul(ddiff(todict(p, 2), i + 3), ddiff(todict(q, 2), i)).items(): pb[k] = pb.get(k, 0) - c
if not close(todict(_poly_poisson(p, 2, q, 2, psi, clmo, enc), 2), pb): bad.append('_poly_poisson')
# substitution: P_new(x) = P_old(C x) and P_old(C x + s) at random complex points, complex coefficients, complex C and s
from hiten.algorithms.polynomial.operations import _substitute_affine, _polynomial_evaluate
from numba.typed import List
P = List()
for d in range(4): P.append(rnd(d))
C = rs.normal(size=(6, 6)) + 1j * rs.normal(size=(6, 6)); sft = 0.3 * (rs.normal(size=6) + 1j * rs.normal(size=6))
for label, new, shift in (('_substitute_linear', _substitute_linear(P, C, 3, psi, clmo, enc), np.zeros(6, dtype=np.complex128)), ('_substitute_affine', _substitute_affine(P, C, sft, 3, psi, clmo, enc), sft)):
    for _ in range(3):
        x = rs.normal(size=6) + 1j * rs.normal(size=6)
        a = complex(_polynomial_evaluate(new, x.astype(np.complex128), clmo)); b = complex(_polynomial_evaluate(P, (C @ x + shift).astype(np.complex128), clmo))
        if abs(a - b) > 1e-8 * max(1.0, abs(b)): bad.append(label + ' (complex coefficients)'); break
_verdict(bool(bad), failing=bad, obligation=%r)
''' % (name,)


# --------------------------------------------------------------------------- schedules

class Tid(int):
    """Thread id of a prange iteration: an int (so it can index arrays) that remembers which iteration it belongs to."""
    def __new__(cls, value, iteration):
        o = int.__new__(cls, value)
        o.iteration = iteration
        return o


class LogArray(np.OA):
    """Object array logging element reads/writes as (iteration, array name, index with Tid coordinates marked, kind)."""
    _log = None
    _cur = [None]

    def __array_finalize__(self, obj):
        self._name = getattr(obj, '_name', None)

    def _rec(self, kind, idx):
        if LogArray._log is None or self._name is None:
            return
        if not isinstance(idx, tuple):
            idx = (idx,)
        key = tuple(('tid', e.iteration) if isinstance(e, Tid) else (int(e) if isinstance(e, (int, rnp.integer)) else ('slice', str(e))) for e in idx)
        LogArray._log.append((LogArray._cur[0], self._name, key, kind))

    def __getitem__(self, idx):
        self._rec('r', idx)
        return super().__getitem__(idx)

    def __setitem__(self, idx, val):
        self._rec('w', idx)
        super().__setitem__(idx, val)


def schedules(chk, tables, thorough):
    """Symbolic schedules: every prange iteration gets a thread id tid(i) in [0, nT) chosen by the solver.
    (a) no two iterations on different threads touch the same cell (one of them writing), unless the cell is never read again;
    (b) the reduction over the per-thread scratch rows gives the same coefficients for every assignment of thread ids."""
    import hiten.algorithms.polynomial.algebra as pa
    import engine.symnp as snp
    psi, clmo, enc = tables
    nT = 3
    for kname in ('_poly_mul', '_poly_diff'):
        P, Pr = R.make_sym_poly(tables, {2: [(1, 0, 0, 1, 0, 0), (0, 2, 0, 0, 0, 0), (0, 0, 1, 0, 0, 1), (2, 0, 0, 0, 0, 0)]}, 'p' + kname[-3:])
        Q, Qr = R.make_sym_poly(tables, {2: [(0, 0, 0, 2, 0, 0), (1, 0, 1, 0, 0, 0), (1, 0, 0, 1, 0, 0)]}, 'q' + kname[-3:])
        log = []
        names = {'n': 0}
        saved_zeros, saved_empty = snp.zeros, snp.empty

        def mk(shape, dtype=None, **k):
            a = saved_zeros(shape, dtype=dtype)
            if isinstance(a, np.OA):
                a = a.view(LogArray)
                a._name = 'arr%d' % names['n']
                names['n'] += 1
            else:
                # integer work arrays: log through an object copy as well
                b = rnp.zeros(shape, dtype=object).view(LogArray)
                b[...] = 0
                b._name = 'int%d' % names['n']
                names['n'] += 1
                a = b
            return a
        # concrete representative schedule: iterations in reverse order, thread ids round-robin
        order_holder = {}

        def handler(*a):
            its = list(range(*a))
            order_holder['n'] = len(its)

            def gen():
                for pos, i in enumerate(reversed(its)):
                    LogArray._cur[0] = i
                    loader.set_thread_id(Tid(pos % nT, i))
                    yield i
                LogArray._cur[0] = 'after'
                loader.set_thread_id(0)
            return gen()
        loader.set_prange_handler(handler)
        loader.set_num_threads(nT)
        snp.zeros = mk
        snp.empty = mk
        LogArray._log = log
        LogArray._cur[0] = 'before'
        ex = Explorer(generic_nonzero=True)
        try:
            with explore.activate(ex):
                if kname == '_poly_mul':
                    res = pa._poly_mul(P[2], 2, Q[2], 2, psi, clmo, enc)
                    want = R.pmul(Pr, Qr)
                    got = R.from_block(rnp.asarray(res), 4, clmo)
                else:
                    res = pa._poly_diff(P[2], 0, 2, psi, clmo, enc)
                    want = R.pdiff(Pr, 0)
                    got = R.from_block(rnp.asarray(res), 1, clmo)
        finally:
            snp.zeros, snp.empty = saved_zeros, saved_empty
            LogArray._log = None
            loader.set_prange_handler(None)
            loader.set_num_threads(1)
            loader.set_thread_id(0)
        ok, key = R.same_poly(got, want)
        (chk.ok if ok else (lambda o, d: chk.fail(o, d, _replay_race(kname))))('C06/schedule/%s/result under a reversed round-robin schedule = reference' % kname,
                                                                  'iterations executed in reverse order on %d threads' % nT)
        # ---- (a) conflicts
        n_it = order_holder.get('n', 0)
        tid = {i: z3.Int('tid_%d' % i) for i in range(n_it)}
        dom = [z3.And(t >= 0, t < nT) for t in tid.values()]
        acc = {}
        for it, name, key, kind in log:
            if isinstance(it, int):
                acc.setdefault(name, []).append((it, key, kind))
        read_after = {}
        for it, name, key, kind in log:
            if it == 'after' and kind == 'r':
                read_after.setdefault(name, []).append(key)
        s = z3.Solver()
        s.add(*dom)
        conflicts = []
        dead = []
        for name, lst in acc.items():
            cells = {}
            for it, key, kind in lst:
                cells.setdefault(key if not any(isinstance(c, tuple) and c[0] == 'tid' for c in key) else tuple(('tid',) if (isinstance(c, tuple) and c[0] == 'tid') else c for c in key), []).append((it, key, kind))
            for ckey, items in cells.items():
                its = sorted({it for it, _, _ in items})
                writers = {it for it, _, kind in items if kind == 'w'}
                if len(its) < 2 or not writers:
                    continue
                tid_dep = any(c == ('tid',) for c in ckey)
                for w in writers:
                    for o in its:
                        if o == w:
                            continue
                        # conflict: both touch the same cell while running on different threads
                        cond = [tid[w] != tid[o]]
                        if tid_dep:
                            cond.append(tid[w] == tid[o])     # the cell coordinate IS the thread id
                        s.push()
                        s.add(*cond)
                        r = str(s.check())
                        s.pop()
                        ex.nq += 1
                        if r == 'sat':
                            if name.startswith('int') or name not in read_after:
                                # possibly a dead cell: only harmless if nobody reads it after the loop or in another iteration
                                readers = {it for it, _, kind in items if kind == 'r'}
                                if readers - {w} or any(True for k_ in read_after.get(name, [])):
                                    conflicts.append((name, ckey, w, o))
                                else:
                                    dead.append((name, ckey))
                            else:
                                conflicts.append((name, ckey, w, o))
        oid = 'C06/schedule/%s/(a) no conflicting accesses for any thread assignment' % kname
        if conflicts:
            chk.fail(oid, 'iterations %d and %d can run on different threads and both access %s%s (a write involved)' % (conflicts[0][2], conflicts[0][3], conflicts[0][0], conflicts[0][1]),
                     _replay_race(kname), None)
        else:
            chk.ok(oid, '%d logged accesses of %d prange iterations, nT = %d: every shared cell is indexed by the thread id%s' % (
                len(log), n_it, nT, '; write-only dead cells ignored: %s' % sorted(set(dead))[:2] if dead else ''), sample={'iterations': n_it, 'accesses': len(log)})
        # ---- (b) reduction is schedule independent (from the logged dataflow: scratch[tid(i), idx] += delta ; r += scratch[t] for every t)
        scratch = None
        for name, lst in acc.items():
            if any(any(isinstance(c, tuple) and c[0] == 'tid' for c in key) for _, key, _ in lst):
                scratch = name
        rows_read = sorted({k[0] for k in read_after.get(scratch, []) if isinstance(k[0], int)}) if scratch else []
        contrib = {}
        if scratch:
            for it, key, kind in acc[scratch]:
                if kind == 'w':
                    contrib.setdefault(key[1], set()).add(it)
        okb = scratch is not None and rows_read == list(range(nT))
        if okb:
            for idx, its in contrib.items():
                vs = {i: z3.Real('delta_%d_%d' % (i, idx)) for i in its}
                total = z3.Sum([z3.Sum([z3.If(tid[i] == t, vs[i], z3.RealVal(0)) for i in its]) for t in range(nT)])
                s.push()
                s.add(total != z3.Sum(list(vs.values())))
                r = str(s.check())
                s.pop()
                ex.nq += 1
                okb = okb and r == 'unsat'
        oid = 'C06/schedule/%s/(b) reduction independent of the thread assignment' % kname
        if okb:
            chk.ok(oid, 'every scratch row 0..%d is summed exactly once; for all tid in [0,%d)^%d the reduced coefficient equals the sum of the contributions (%d output slots)' % (nT - 1, nT, n_it, len(contrib)))
        else:
            chk.fail(oid, 'the per-thread scratch rows are not all reduced, or a contribution is lost for some thread assignment', _replay_race(kname), None)
        chk.absorb(ex)


def _replay_race(kname):
    return '''
# NUMBA_NUM_THREADS=12
import numba
from hiten.algorithms.polynomial.base import _init_index_tables, _create_encode_dict_from_clmo, _make_poly
from hiten.algorithms.polynomial.algebra import _poly_mul, _poly_diff
psi, clmo = _init_index_tables(8); enc = _create_encode_dict_from_clmo(clmo)
rs = np.random.default_rng(1)
p = _make_poly(4, psi); p[:] = rs.normal(size=p.shape); q = _make_poly(4, psi); q[:] = rs.normal(size=q.shape)
def run():
    return _poly_mul(p, 4, q, 4, psi, clmo, enc) if %r == '_poly_mul' else _poly_diff(p, 0, 4, psi, clmo, enc)
numba.set_num_threads(1); ref = run()
worst = {}
for n in range(2, numba.config.NUMBA_NUM_THREADS + 1):      # every pool size: a schedule-dependent result may need a particular one
    numba.set_num_threads(n)
    worst[n] = max(float(np.max(np.abs(run() - ref))) for _ in range(12))
bad = {n: d for n, d in worst.items() if d > 1e-9}
_verdict(bool(bad), thread_counts_with_a_different_result=sorted(bad), max_difference=max(worst.values()))
''' % (kname,)


def main():
    chk = Check(PID)
    chk.default_replay = lambda: _replay_algebra('general confirmation')
    thorough = chk.tier == 'thorough'
    chk.bound(layout='pack/unpack: all k_i in [0,63] (QF_BV, complete); table enumeration exhaustive for degree <= %d' % (30 if thorough else 14),
              algebra='factor degrees <= 2 (products to degree %d), 5-6 symbolic coefficients per operand, real and complex, plus the dense 1x1 case; substitution degree <= 3 with 10 symbolic matrix entries' % (6 if thorough else 4),
              schedules='3 threads, 4-7 prange iterations, every assignment of thread ids (solver)')
    chk.out_of_scope('floating-point rounding and re-association across threads', 'degrees above the bound (the kernels are uniform in degree: an argument, not a verdict)')
    chk.trust('stars and bars: the number of 6-variable multi-indices of degree d is C(d+5,5)', 'numba prange semantics: iterations may run concurrently only on different threads; get_thread_id() is constant within an iteration')
    layout(chk, thorough)
    tables = algebra(chk, thorough)
    schedules(chk, tables, thorough)
    # translator validation of the packing on the compiled build
    cases = [('_pack_multiindex', '_pack_multiindex(np.array(%r, dtype=np.int64))' % (k,), [float((k[1] & 63) | ((k[2] & 63) << 6) | ((k[3] & 63) << 12) | ((k[4] & 63) << 18) | ((k[5] & 63) << 24))], k)
             for k in ([3, 1, 0, 2, 5, 7], [0, 0, 0, 0, 0, 30], [1, 63, 63, 63, 63, 63])]
    errs = validate.compare(chk, 'from hiten.algorithms.polynomial.base import _pack_multiindex', cases)
    for name, err, expr in errs:
        chk.inconclusive.append('real build raised in validation of %s: %s' % (name, err))
    return chk.finish()


if __name__ == '__main__':
    sys.exit(main())

"""C08 — Lie-series normal form removes the right terms by a canonical transformation."""
from __future__ import annotations

import sys
import time
from fractions import Fraction

from harness.common import *  # noqa: F401,F403
from harness.common import np, Explorer, Check, Sym, W, explore, Stub, normal, rng
from harness import polyref as R

PID = 'C08'

H3_SUPPORT = [(2, 1, 0, 0, 0, 0), (1, 0, 0, 0, 1, 1), (0, 1, 0, 1, 1, 0), (0, 0, 2, 1, 0, 0), (1, 1, 0, 1, 0, 0), (0, 1, 1, 0, 0, 1), (0, 0, 0, 2, 0, 1)]
H4_SUPPORT = [(2, 0, 0, 1, 0, 1), (1, 1, 0, 1, 1, 0), (0, 2, 0, 0, 2, 0), (3, 0, 0, 0, 1, 0), (0, 1, 1, 0, 1, 1), (1, 0, 1, 2, 0, 0), (0, 0, 2, 0, 0, 2)]
ALT3 = [(3, 0, 0, 0, 0, 0), (1, 0, 1, 0, 0, 1), (0, 0, 1, 1, 1, 0), (0, 2, 0, 0, 0, 1), (2, 0, 0, 0, 1, 0), (0, 0, 0, 1, 1, 1), (1, 1, 0, 0, 1, 0)]
ALT4 = [(1, 1, 1, 0, 0, 1), (2, 0, 0, 2, 0, 0), (0, 0, 0, 1, 2, 1), (0, 3, 0, 0, 1, 0), (1, 0, 0, 0, 0, 3), (0, 1, 2, 1, 0, 0), (4, 0, 0, 0, 0, 0)]


def build_H(tables, N, s3, s4, tag):
    """H2 = lam q1 p1 + nu1 q2 p2 + nu2 q3 p3 with FORMAL frequencies (nu_k stands for i*omega_k: every obligation is a
    rational-function identity, valid for all complex values by analytic continuation) + symbolic H3, H4."""
    import hiten.algorithms.polynomial.base as pb
    psi, clmo, enc = tables
    lam, nu1, nu2 = W.vars('lam nu1 nu2')
    blocks, ref = R.make_sym_poly(tables, {3: s3, 4: s4}, 'c%s_' % tag)
    blocks += [pb._make_poly(d, psi) for d in range(len(blocks), N + 1)]
    blocks = blocks[:N + 1]
    ref = {k: v for k, v in ref.items() if sum(k) <= N}
    for k, v in (((1, 0, 0, 1, 0, 0), lam), ((0, 1, 0, 0, 1, 0), nu1), ((0, 0, 1, 0, 0, 1), nu2)):
        pos = pb._encode_multiindex(np.array(list(k), dtype=np.int64), 2, enc)
        blocks[2][pos] = v
        ref[k] = v
    # linear_modes = (lam, om1, om2) with 1j*om_k = nu_k  <=>  om_k = -i nu_k
    I = W.I()
    point = Stub(linear_modes=(lam, -I * nu1, -I * nu2))
    return blocks, ref, point, (lam, nu1, nu2)


def is_zero(c):
    return not normal(Sym.lift(c)).t


def run_case(chk, kind, N, s3, s4, tag, do_compose):
    import hiten.algorithms.polynomial.base as pb
    import hiten.algorithms.hamiltonian.center._lie as cl
    import hiten.algorithms.hamiltonian.normal._lie as nl
    t0 = time.time()
    psi, clmo = pb._init_index_tables(N)
    enc = pb._create_encode_dict_from_clmo(clmo)
    tables = (psi, clmo, enc)
    ex = Explorer(generic_nonzero=True)
    label = '%s/N=%d/support %s' % (kind, N, tag)
    with explore.activate(ex):
        H, Href, point, modes = build_H(tables, N, s3, s4, tag)
        if kind == 'partial':
            Hn, G, elim = cl._lie_transform(point, H, psi, clmo, N, tol=1e-30)
        else:
            Hn, G, elim = nl._lie_transform(point, H, psi, clmo, N, tol=1e-30, resonance_tol=1e-14)
        Hn_ref = R.from_blocks(Hn, clmo)
        # (1) elimination
        bad = []
        nelim = 0
        for k, v in Hn_ref.items():
            d = sum(k)
            if d < 3:
                continue
            removable = (k[0] != k[3]) if kind == 'partial' else not (k[0] == k[3] and k[1] == k[4] and k[2] == k[5])
            if removable:
                nelim += 1
                if not is_zero(v):
                    bad.append((k, v))
        # count how many removable monomials were actually produced along the way (non-trivial obligation)
        produced = sum(1 for d in range(3, N + 1) for pos in range(len(elim[d])) if not is_zero(elim[d][pos])) if elim is not None else 0
        oid = 'C08/(1)elimination/%s' % label
        if bad:
            chk.fail(oid, '%d removable monomials survive, e.g. %s with coefficient %r' % (len(bad), bad[0][0], bad[0][1]), _replay_elim(kind), None)
        else:
            chk.ok(oid, 'every monomial of degree 3..%d with %s has coefficient identically 0 (%d such monomials were present before their elimination step)' % (
                N, 'k_q1 != k_p1' if kind == 'partial' else 'a non-resonant exponent pattern', produced), sample={'kind': kind, 'N': N, 'eliminated': produced})
        # quadratic part untouched
        ok2 = all(is_zero(Hn_ref.get(k, Sym({})) - v) for k, v in Href.items() if sum(k) == 2) and all(sum(k) != 2 or k in Href for k in Hn_ref)
        (chk.ok if ok2 else (lambda o, d: chk.fail(o, d, None)))('C08/(1)quadratic-part-unchanged/%s' % label, 'H2 is left as it is')
        if do_compose:
            fwd = cl._lie_expansion(G, N, psi, clmo, 1e-30, inverse=False, sign=None, restrict=False)
            inv = cl._lie_expansion(G, N, psi, clmo, 1e-30, inverse=True, sign=None, restrict=False)
            Phi = [R.from_blocks(fwd[i], clmo) for i in range(6)]
            Psi = [R.from_blocks(inv[i], clmo) for i in range(6)]
            # (2) H_new = H_old o Phi  mod degree N+1
            comp = R.pcompose(Href, Phi, N)
            ok, key = R.same_poly(comp, Hn_ref)
            oid = 'C08/(2)H_new = H_old o Phi/%s' % label
            if ok:
                chk.ok(oid, 'composition with the code\'s own forward coordinate series, all %d coefficients up to degree %d' % (len(comp), N))
            else:
                chk.fail(oid, 'coefficient of %s differs: composed %r vs transformed %r' % (key, comp.get(key), Hn_ref.get(key)), _replay_compose(kind), None)
            # (3) canonical: {Phi_i, Phi_j} = J_ij  mod degree N  (Phi is known to degree N, brackets to degree N-1)
            okc = True
            badc = None
            for i in range(6):
                for j in range(i + 1, 6):
                    br = R.by_degree(R.ppoisson(Phi[i], Phi[j], None), 0, N - 1)
                    want = Sym.const(1 if j == i + 3 else 0)
                    for k, v in br.items():
                        tgt = want if sum(k) == 0 else Sym.const(0)
                        if not is_zero(v - tgt):
                            okc, badc = False, (i, j, k)
                    if sum(1 for k in br if sum(k) == 0) == 0 and j == i + 3:
                        okc, badc = False, (i, j, 'constant term missing')
            oid = 'C08/(3)canonical {Phi_i,Phi_j} = J_ij/%s' % label
            (chk.ok if okc else (lambda o, d: chk.fail(o, d, _replay_series(max(N, 6)))))(oid, 'all 15 brackets up to degree %d%s' % (N - 1, '' if okc else '; first failure %s' % (badc,)))
            # (4) inverse o forward = id  mod degree N+1
            okid = True
            for i in range(6):
                c = R.pcompose(Psi[i], Phi, N)
                e = [0] * 6
                e[i] = 1
                ok, key = R.same_poly(c, {tuple(e): Sym.const(1)})
                okid = okid and ok
            oid = 'C08/(4)inverse o forward = id/%s' % label
            (chk.ok if okid else (lambda o, d: chk.fail(o, d, _replay_series(max(N, 6)))))(oid, 'all six coordinate series up to degree %d' % N)
    st = chk.absorb(ex)
    chk.note('%s: %.1f s, %d generic decisions' % (label, time.time() - t0, st['generic_nonzero_notes']))


def high_degree_series(chk, N, s3, s4, tag, explicit_sign=False):
    """The coordinate series of a SPARSE symbolic generator (a few monomials in G3 and G4, nothing else) at a high truncation
    degree: the number of nested brackets needed grows with N (N-1 for the cubic part), so series-length, factorial and
    truncation errors that low degrees cannot show appear here.  Convention-free obligations: canonical and inverse o forward = id."""
    import hiten.algorithms.polynomial.base as pb
    import hiten.algorithms.hamiltonian.center._lie as cl
    t0 = time.time()
    psi, clmo = pb._init_index_tables(N)
    enc = pb._create_encode_dict_from_clmo(clmo)
    tables = (psi, clmo, enc)
    ex = Explorer(generic_nonzero=True)
    label = 'sparse generator%s/N=%d/support %s' % (' (explicit signs, as the pipeline calls it)' if explicit_sign else '', N, tag)
    with explore.activate(ex):
        G, Gref = R.make_sym_poly(tables, {3: s3, 4: s4}, 'g%s_' % tag)
        G += [pb._make_poly(d, psi) for d in range(len(G), N + 1)]
        # explicit_sign: the call pattern of HamiltonianPipeline.get_lie_expansions (direction AND generator sign passed explicitly)
        fwd = cl._lie_expansion(G, N, psi, clmo, 1e-30, inverse=False, sign=(1 if explicit_sign else None), restrict=False)
        inv = cl._lie_expansion(G, N, psi, clmo, 1e-30, inverse=True, sign=(-1 if explicit_sign else None), restrict=False)
        Phi = [R.from_blocks(fwd[i], clmo) for i in range(6)]
        Psi = [R.from_blocks(inv[i], clmo) for i in range(6)]
        top = max((sum(k) for P in Phi for k, v in P.items() if not is_zero(v)), default=0)
        okc, badc = True, None
        for i in range(6):
            for j in range(i + 1, 6):
                br = R.by_degree(R.ppoisson(Phi[i], Phi[j], None), 0, N - 1)
                want = Sym.const(1 if j == i + 3 else 0)
                for k, v in br.items():
                    tgt = want if sum(k) == 0 else Sym.const(0)
                    if not is_zero(v - tgt):
                        okc, badc = False, (i, j, k)
                if sum(1 for k in br if sum(k) == 0) == 0 and j == i + 3:
                    okc, badc = False, (i, j, 'constant term missing')
        oid = 'C08/(3)canonical {Phi_i,Phi_j} = J_ij/%s' % label
        if okc:
            chk.ok(oid, 'all 15 brackets up to degree %d (series reach degree %d)' % (N - 1, top), sample={'N': N, 'top_degree': top})
        else:
            chk.fail(oid, 'bracket {Phi_%d, Phi_%d} is wrong at monomial %s' % badc, _replay_series(N), None)
        okid, badi = True, None
        for i in range(6):
            c = R.pcompose(Psi[i], Phi, N)
            e = [0] * 6
            e[i] = 1
            ok, key = R.same_poly(c, {tuple(e): Sym.const(1)})
            if not ok:
                okid, badi = False, (i, key)
        oid = 'C08/(4)inverse o forward = id/%s' % label
        if okid:
            chk.ok(oid, 'all six coordinate series up to degree %d' % N)
        else:
            chk.fail(oid, 'component %d of inverse o forward differs from the identity at monomial %s' % badi, _replay_series(N), None)
    st = chk.absorb(ex)
    chk.note('%s: %.1f s' % (label, time.time() - t0))


def _replay_series(N):
    """Real build: coordinate series of a concrete sparse generator at degree N; canonicity and inverse o forward numerically."""
    return '''
from hiten.algorithms.polynomial.base import _init_index_tables, _create_encode_dict_from_clmo, _encode_multiindex, _make_poly
from hiten.algorithms.polynomial.operations import _polynomial_poisson_bracket, _polynomial_evaluate
from hiten.algorithms.hamiltonian.center._lie import _lie_expansion
from numba.typed import List
N = %d
psi, clmo = _init_index_tables(N); enc = _create_encode_dict_from_clmo(clmo)
G = [_make_poly(d, psi) for d in range(N + 1)]
for k, c in (((2, 1, 0, 0, 0, 0), 0.3), ((1, 0, 0, 0, 1, 1), -0.2), ((0, 1, 0, 1, 1, 0), 0.25), ((2, 0, 0, 1, 0, 1), 0.15)):
    G[sum(k)][_encode_multiindex(np.array(k, dtype=np.int64), sum(k), enc)] = c
Gl = List()
for a in G: Gl.append(a)
results = {}
for mode, (sf, si) in (("default signs", (None, None)), ("explicit signs as the pipeline passes them", (1, -1))):
    fwd = _lie_expansion(Gl, N, psi, clmo, 1e-30, inverse=False, sign=sf, restrict=False)
    inv = _lie_expansion(Gl, N, psi, clmo, 1e-30, inverse=True, sign=si, restrict=False)
    # canonicity: {Phi_i, Phi_j} = J_ij up to degree N-1
    worst_c = 0.0
    for i in range(6):
        for j in range(i + 1, 6):
            br = _polynomial_poisson_bracket(fwd[i], fwd[j], N, psi, clmo, enc)
            for d in range(0, N):
                blk = np.asarray(br[d]) if d < len(br) else np.zeros(1)
                tgt = np.zeros_like(blk)
                if d == 0 and j == i + 3: tgt[0] = 1.0
                worst_c = max(worst_c, float(np.max(np.abs(blk - tgt))) if blk.size else 0.0)
    # inverse o forward at a small point: error must be O(|z|^(N+1))
    z = np.array([0.11, -0.07, 0.05, 0.09, 0.06, -0.08], dtype=np.complex128)
    def ev(series, pt): return np.array([_polynomial_evaluate(series[i], pt, clmo) for i in range(6)])
    err = []
    for scale in (1.0, 0.5):
        w = ev(inv, ev(fwd, z * scale)); err.append(float(np.max(np.abs(w - z * scale))))
    order = np.log2(err[0] / err[1]) if err[1] > 0 else 99.0
    results[mode] = (worst_c, err, float(order))
bad = {m.replace(" ", "_"): "bracket error %%.2e, round-trip errors %%s, observed order %%.2f (required %%d)" %% (r[0], r[1], r[2], N + 1) for m, r in results.items() if r[0] > 1e-10 or (r[1][1] > 1e-14 and r[2] < N + 0.5)}
_verdict(bool(bad), **bad)
''' % N


def _replay_elim(kind):
    return '''
from hiten.system import System
s = System.from_bodies("earth", "moon"); p = s.get_libration_point(1)
cm = p.get_center_manifold(degree=5); cm.compute()
H = cm.dynamics.pipeline.get_hamiltonian(%r)
from hiten.algorithms.polynomial.base import _decode_multiindex
clmo = H.dynamics.clmo
worst = 0.0
for d in range(3, 6):
    for pos, c in enumerate(H.poly_H[d]):
        k = _decode_multiindex(pos, d, clmo)
        removable = (k[0] != k[3]) if %r == 'partial' else not (k[0] == k[3] and k[1] == k[4] and k[2] == k[5])
        if removable: worst = max(worst, abs(c))
_verdict(worst > 1e-10, largest_surviving_removable_coefficient=float(worst))
''' % ('complex_partial_normal' if kind == 'partial' else 'complex_full_normal', kind)


def _replay_compose(kind):
    return '''
from hiten.system import System
s = System.from_bodies("earth", "moon"); p = s.get_libration_point(1)
cm = p.get_center_manifold(degree=5); cm.compute()
pipe = cm.dynamics.pipeline
H0 = pipe.get_hamiltonian("complex_modal"); H1 = pipe.get_hamiltonian("complex_partial_normal")
gf = pipe.get_generating_functions("partial") if hasattr(pipe, "get_generating_functions") else None
from hiten.algorithms.hamiltonian.center._lie import _lie_expansion, _evaluate_transform
from hiten.algorithms.polynomial.operations import _polynomial_evaluate
G = gf.poly_G if gf is not None else None
exp = _lie_expansion(G, 5, H0.dynamics.psi, H0.dynamics.clmo, 1e-30, inverse=False, sign=None, restrict=False)
errs = []
for r in (1e-2, 5e-3):
    z = r * np.array([0.3+0.1j, 0.5, -0.2j, 0.1, 0.4-0.3j, 0.6])
    w = _evaluate_transform(exp, z, H0.dynamics.clmo)
    errs.append(abs(_polynomial_evaluate(H1.poly_H, z, H0.dynamics.clmo) - _polynomial_evaluate(H0.poly_H, w, H0.dynamics.clmo)))
ratio = errs[0] / max(errs[1], 1e-300)
_verdict(ratio < 2.0 ** 5, errors=[float(e) for e in errs], observed_order=float(np.log2(ratio)))
'''


def main():
    chk = Check(PID)
    chk.default_replay = lambda: _replay_series(7)
    import hiten.algorithms.hamiltonian.center._lie as cl
    import hiten.algorithms.hamiltonian.normal._lie as nl
    import hiten.algorithms.hamiltonian.lie as lie
    thorough = chk.tier == 'thorough'
    chk.encode(cl._lie_transform, cl._select_terms_for_elimination, cl._lie_expansion, cl._apply_coord_transform, nl._lie_transform, nl._select_nonresonant_terms,
               lie._solve_homological_equation, lie._apply_poly_transform)
    chk.bound(N='elimination: N <= %d; composition/canonicity/inverse: N <= %d (thorough: N = 5 with a reduced support of 5 + 3 coefficients)' % (6 if thorough else 5, 5 if thorough else 4),
              H='H2 = lam q1p1 + nu1 q2p2 + nu2 q3p3 with formal frequencies, H3 and H4 with 7 symbolic coefficients each (two different supports)')
    chk.assume('non-resonance to the needed order: every divisor (k, eta) that is not identically zero is non-zero (generic side of the |denom| < 1e-14 test)',
               'nu_k stands for i*omega_k: the obligations are rational-function identities in (lam, nu1, nu2, coefficients), valid for all complex values with non-zero divisors',
               'zero-skip guards and cleaning thresholds on the generic side')
    chk.out_of_scope('dense Hamiltonians at degrees above the bound (only a sparse symbolic generator is taken to degree 8, 9 thorough)', 'radius of convergence, behaviour near resonances')
    run_case(chk, 'partial', 4, H3_SUPPORT, H4_SUPPORT, 'A', True)
    run_case(chk, 'partial', 5 if not thorough else 6, H3_SUPPORT, H4_SUPPORT, 'A', False)
    run_case(chk, 'full', 4, H3_SUPPORT, H4_SUPPORT, 'A', True)
    r = rng(chk, 8)
    alt3 = r.sample(ALT3, 5) + r.sample(H3_SUPPORT, 2)
    alt4 = r.sample(ALT4, 5) + r.sample(H4_SUPPORT, 2)
    run_case(chk, 'partial', 4, alt3, alt4, 'B(seed %d)' % chk.seed, False)
    run_case(chk, 'full', 5, H3_SUPPORT, H4_SUPPORT, 'A', False)
    high_degree_series(chk, 8 if not thorough else 9, H3_SUPPORT[:3], H4_SUPPORT[:1], 'S')
    high_degree_series(chk, 6, H3_SUPPORT[:3], H4_SUPPORT[:1], 'S', explicit_sign=True)
    if thorough:
        # (the first sizing -- dense composition at N = 5 for both transforms plus the sparse series at degree 10 -- did not finish in 2 h)
        run_case(chk, 'partial', 5, H3_SUPPORT[:5], H4_SUPPORT[:3], 'A5', True)
    return chk.finish()


if __name__ == '__main__':
    sys.exit(main())

"""C16 — the symplectic integrator is symplectic, reversible and of its declared order."""
from __future__ import annotations

import sys
from fractions import Fraction

from harness.common import *  # noqa: F401,F403
from harness.common import np, Explorer, Check, Sym, W, explore, normal, prove_zero, model_to_env, fmt_env, aidx
from harness import polyref as R
from harness import drivers as D

PID = 'C16'

H_SPEC = {2: [(2, 0, 0, 0, 0, 0), (0, 0, 0, 2, 0, 0), (1, 0, 0, 1, 0, 0), (0, 1, 0, 0, 0, 1), (0, 0, 0, 0, 2, 0)],
          3: [(2, 1, 0, 0, 0, 0), (1, 0, 0, 0, 1, 1), (0, 0, 1, 2, 0, 0), (0, 1, 1, 0, 0, 1)]}


def jext():
    """Matrix of dQ^dP + dX^dY in the ordering (Q, P, X, Y), 3 dof each."""
    J = [[0] * 12 for _ in range(12)]
    for i in range(3):
        J[i][3 + i] = 1
        J[3 + i][i] = -1
        J[6 + i][9 + i] = 1
        J[9 + i][6 + i] = -1
    return J


def main():
    chk = Check(PID)
    chk.default_replay = _replay_symplectic
    import hiten.algorithms.integrators.symplectic as sp
    import hiten.algorithms.polynomial.base as pb
    import hiten.algorithms.polynomial.operations as po
    thorough = chk.tier == 'thorough'
    chk.encode(sp._phi_H_a_update_poly, sp._phi_H_b_update_poly, sp._phi_omega_H_c_update_poly, sp._recursive_update_poly, sp._integrate_symplectic, sp._get_tao_omega,
               sp._eval_dH_dQ, sp._eval_dH_dP)
    chk.bound(H='degree <= 3 in 3 degrees of freedom, 9 symbolic coefficients including non-separable q*p terms (statement: degree <= 6)', state='12 symbolic extended coordinates, symbolic sub-step delta and coupling omega',
              triple_jump='orders 4, 6, 8: every level of the recursion (no bound)')
    chk.trust('a composition of symplectic maps is symplectic; a palindromic composition of maps with phi(-d) o phi(d) = id is reversible',
              'Yoshida/Suzuki triple jump: composing an order-p symmetric scheme with fractions (g, 1-2g, g) gives order p+2 iff 2 g^(p+1) + (1-2g)^(p+1) = 0')
    chk.out_of_scope('long-time energy boundedness (backward error analysis + numerics)', 'the omega = (c*dt)^(-order) heuristic', 'polynomial degrees 4..6')
    psi, clmo = pb._init_index_tables(3)
    enc = pb._create_encode_dict_from_clmo(clmo)
    ex = Explorer(generic_nonzero=True)
    Z = [W.var(n) for n in ['Q0', 'Q1', 'Q2', 'P0', 'P1', 'P2', 'X0', 'X1', 'X2', 'Y0', 'Y1', 'Y2']]
    delta, omega = W.var('delta'), W.var('omega')
    J = jext()
    with explore.activate(ex):
        Hb, Href = R.make_sym_poly((psi, clmo, enc), H_SPEC, 'h')
        jac = po._polynomial_jacobian(Hb, 3, psi, clmo, enc)

        def run(name, d):
            q = np.array(list(Z))
            if name == 'a':
                sp._phi_H_a_update_poly(q, d, jac, clmo)
            elif name == 'b':
                sp._phi_H_b_update_poly(q, d, jac, clmo)
            else:
                sp._phi_omega_H_c_update_poly(q, d, omega)
            return [Sym.lift(v) for v in q]

        def Hpart(name):
            Q, P, X, Y = Z[0:3], Z[3:6], Z[6:9], Z[9:12]
            if name == 'a':
                return R.peval(Href, Q + Y)
            if name == 'b':
                return R.peval(Href, X + P)
            return omega * sum(((Q[i] - X[i]) ** 2 + (P[i] - Y[i]) ** 2 for i in range(3)), Sym.const(0)) / 2

        for name, label in (('a', '_phi_H_a_update_poly'), ('b', '_phi_H_b_update_poly'), ('c', '_phi_omega_H_c_update_poly')):
            out = run(name, delta)
            M = [[out[i].diff(Z[j]) for j in range(12)] for i in range(12)]
            # (1) M^T J M = J
            bad = 0
            first = None
            for i in range(12):
                for j in range(i, 12):
                    r = Sym.const(0)
                    for k in range(12):
                        for l in range(12):
                            if J[k][l] and M[k][i].t and M[l][j].t:
                                r = r + M[k][i] * J[k][l] * M[l][j]
                    v, m, info = prove_zero(ex, r - J[i][j])
                    if v != 'unsat':
                        bad += 1
                        first = first or (i, j, m)
            oid = 'C16/(1)symplectic/%s' % label
            if bad == 0:
                chk.ok(oid, 'Jacobian M (engine differentiation, 12x12) satisfies M^T J_ext M = J_ext for all states, sub-steps and coefficient values (78 entries)',
                       sample={'submap': label, 'entries': 78})
            else:
                env = model_to_env(first[2]) if first[2] is not None else {}
                chk.fail(oid, '%d entries of M^T J M - J are not identically zero (first (%d,%d)) e.g. at %s' % (bad, first[0], first[1], fmt_env(env)), _replay_symplectic(), env)
            # (2) phi(-delta) o phi(delta) = id
            q = np.array(out)
            if name == 'a':
                sp._phi_H_a_update_poly(q, -delta, jac, clmo)
            elif name == 'b':
                sp._phi_H_b_update_poly(q, -delta, jac, clmo)
            else:
                sp._phi_omega_H_c_update_poly(q, -delta, omega)
            okr = all(prove_zero(ex, Sym.lift(q[i]) - Z[i])[0] == 'unsat' for i in range(12))
            (chk.ok if okr else (lambda o, d: chk.fail(o, d, _replay_symplectic())))('C16/(2)reversible/%s' % label, 'phi(-delta) o phi(delta) = identity on the extended state')
            # (3) generator: d/d delta at 0 = J_ext grad H_part
            Hp = Hpart(name)
            okg = True
            for i in range(12):
                d0 = out[i].diff(delta).subs({aidx(delta): 0})
                if i < 3:
                    want = Hp.diff(Z[3 + i])
                elif i < 6:
                    want = -Hp.diff(Z[i - 3])
                elif i < 9:
                    want = Hp.diff(Z[3 + i])
                else:
                    want = -Hp.diff(Z[i - 3])
                okg = okg and prove_zero(ex, d0 - want)[0] == 'unsat'
            (chk.ok if okg else (lambda o, d: chk.fail(o, d, _replay_symplectic())))('C16/(3)generator/%s' % label,
                                                                                      'd phi/d delta at delta = 0 is the Hamiltonian field of %s' % {'a': 'H(Q, Y)', 'b': 'H(X, P)', 'c': 'omega/2 (|Q-X|^2 + |P-Y|^2)'}[name])
        # (3') on the diagonal X = Q, Y = P the extended field projects onto Hamilton's equations of H
        Hd = R.peval(Href, Z[0:6])
        Ha, Hb_, Hc = Hpart('a'), Hpart('b'), Hpart('c')
        tot = Ha + Hb_ + Hc
        diag = {aidx(Z[6 + i]): Z[i] for i in range(3)}
        diag.update({aidx(Z[9 + i]): Z[3 + i] for i in range(3)})
        okd = True
        for i in range(3):
            okd = okd and prove_zero(ex, tot.diff(Z[3 + i]).subs(diag) - Hd.diff(Z[3 + i]))[0] == 'unsat'
            okd = okd and prove_zero(ex, tot.diff(Z[i]).subs(diag) - Hd.diff(Z[i]))[0] == 'unsat'
            okd = okd and prove_zero(ex, (tot.diff(Z[9 + i]) - tot.diff(Z[3 + i])).subs(diag))[0] == 'unsat'      # copies move together
        (chk.ok if okd else (lambda o, d: chk.fail(o, d, None)))('C16/(3)consistent-with-H-on-the-diagonal', 'for X = Q, Y = P the extended field restricted to (Q, P) is (dH/dP, -dH/dQ) and both copies move alike')

    # ---- composition structure: order 2 palindrome and the triple-jump recursion, with the three sub-maps recorded
    log = []
    saved = (sp._phi_H_a_update_poly, sp._phi_H_b_update_poly, sp._phi_omega_H_c_update_poly)
    sp._phi_H_a_update_poly = lambda q, d, j, c: log.append(('a', d))
    sp._phi_H_b_update_poly = lambda q, d, j, c: log.append(('b', d))
    sp._phi_omega_H_c_update_poly = lambda q, d, o: log.append(('c', d, o))
    h = W.var('hstep')
    try:
        with explore.activate(ex):
            del log[:]
            sp._recursive_update_poly(None, h, 2, omega, None, None)
            pal = [(e[0], Sym.lift(e[1])) for e in log]
            want = [('a', h / 2), ('b', h / 2), ('c', h), ('b', h / 2), ('a', h / 2)]
            okp = len(pal) == 5 and all(a[0] == b[0] and not normal(a[1] - b[1]).t for a, b in zip(pal, want)) and all(not normal(Sym.lift(e[2]) - omega).t for e in log if e[0] == 'c')
            (chk.ok if okp else (lambda o, d: chk.fail(o, d, _replay_order(2))))('C16/(2)palindrome/order 2', 'a(h/2) b(h/2) c(h) b(h/2) a(h/2) with the caller\'s omega: symmetric, hence reversible and of even order >= 2')
            for order in (4, 6, 8):
                # record the top level of the recursion: three calls of order-2 with fractions of h
                rec = []
                real = sp._recursive_update_poly

                def spy(q, ts, o, om, j, c, _real=real, _top=order):
                    if o == _top:
                        return _real(q, ts, o, om, j, c)
                    rec.append((o, Sym.lift(ts)))
                sp._recursive_update_poly = spy
                try:
                    spy(None, h, order, omega, None, None)
                finally:
                    sp._recursive_update_poly = real
                fr = []
                for o, ts in rec:
                    (m_, c_), = ts.t.items()
                    fr.append(c_)
                p_inner = order - 2
                struct = len(rec) == 3 and all(o == p_inner for o, _ in rec) and fr[0] == fr[2] and abs(float(fr[0] + fr[1] + fr[2] - 1)) < 1e-12
                cond = 2 * fr[0] ** (p_inner + 1) + fr[1] ** (p_inner + 1) if struct else None
                oid = 'C16/(4)triple-jump/order=%d' % order
                # the constants are doubles: accept the residual of their rounding only
                import z3
                s = z3.Solver()
                if struct:
                    s.add(z3.Or(z3.RealVal(str(cond)) > z3.RealVal('1/1000000000'), z3.RealVal(str(cond)) < z3.RealVal('-1/1000000000')))
                    r = str(s.check())
                    ex.nq += 1
                else:
                    r = 'sat'
                if r == 'unsat':
                    chk.ok(oid, 'sub-steps (g, 1-2g, g) h of the order-%d scheme with g = %.12f: 2 g^%d + (1-2g)^%d = %.1e' % (p_inner, float(fr[0]), p_inner + 1, p_inner + 1, float(cond)))
                else:
                    chk.fail(oid, 'the order-%d level composes the order-%d scheme with g = %s; the order condition 2 g^%d + (1-2g)^%d = 0 is violated (value %s): the composition does not gain two orders' % (
                        order, p_inner, ('%.12f' % float(fr[0])) if struct else fr, p_inner + 1, p_inner + 1, ('%.3e' % float(cond)) if struct else 'n/a'), _replay_order(order), {'order': order})
    finally:
        sp._phi_H_a_update_poly, sp._phi_H_b_update_poly, sp._phi_omega_H_c_update_poly = saved
    st = chk.absorb(ex)
    chk.note('%d generic decisions' % st['generic_nonzero_notes'])
    return chk.finish()


def _replay_symplectic():
    return D.HAM_PRELUDE + '''
from hiten.algorithms.integrators.symplectic import _recursive_update_poly
hs = make_hamsys(0.7, mixed=0.4)
def step(z, h):
    q = z.copy(); _recursive_update_poly(q, h, 2, 3.0, hs.jac_H, hs.clmo_H); return q
z0 = np.concatenate([Y0, Y0 + 0.01])
h = 0.05; e = 1e-6
M = np.zeros((12, 12))
for j in range(12):
    d = np.zeros(12); d[j] = e
    M[:, j] = (step(z0 + d, h) - step(z0 - d, h)) / (2 * e)
J = np.zeros((12, 12))
for i in range(3):
    J[i, 3 + i] = 1; J[3 + i, i] = -1; J[6 + i, 9 + i] = 1; J[9 + i, 6 + i] = -1
sym_err = float(np.max(np.abs(M.T @ J @ M - J)))
back = step(step(z0, h), -h)
rev_err = float(np.max(np.abs(back - z0)))
_verdict(sym_err > 1e-6 or rev_err > 1e-10, symplecticity_defect=sym_err, reversibility_defect=rev_err)
'''


def _replay_order(order):
    return D.HAM_PRELUDE + '''
from hiten.algorithms.integrators.symplectic import _recursive_update_poly
hs = make_hamsys(0.7, mixed=0.4)
order = %d; omega = 2.0
def integrate(n, T=1.0):
    q = np.concatenate([Y0, Y0]); h = T / n
    for _ in range(n): _recursive_update_poly(q, h, order, omega, hs.jac_H, hs.clmo_H)
    return q[:6]
ref = integrate(640)
e1 = np.max(np.abs(integrate(20) - ref)); e2 = np.max(np.abs(integrate(40) - ref))
obs = float(np.log2(e1 / e2))
_verdict(obs < order - 0.7, declared_order=order, observed_order=obs, errors=[float(e1), float(e2)])
''' % order


if __name__ == '__main__':
    sys.exit(main())

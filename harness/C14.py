"""C14 — centre-manifold Poincare maps stay on section (and are genuine returns) under any parallelism."""
from __future__ import annotations

import itertools
import sys
from fractions import Fraction

from harness.common import *  # noqa: F401,F403
from harness.common import np, Explorer, Check, Sym, W, explore, Stub, normal, model_to_env, fmt_env, opaque, And, Or, Not
from harness.drivers import same
from engine import loader

PID = 'C14'
COORDS = {'q2': (1, 4), 'p2': (4, 1), 'q3': (2, 5), 'p3': (5, 2)}     # section coordinate index, conjugate index in (q1,q2,q3,p1,p2,p3)


def detect_crossing(chk, cmb):
    chk.encode(cmb._detect_crossing)
    so = np.array([W.var('o%d' % i) for i in range(6)])
    sn = np.array([W.var('n%d' % i) for i in range(6)])
    rh = np.array([W.var('r%d' % i) for i in range(6)])
    for sc, (idx, conj) in COORDS.items():
        ex = Explorer(max_paths=50)
        paths = ex.run(lambda: cmb._detect_crossing(sc, so, sn, rh, 3))
        ok = True
        for p in paths:
            crossed, alpha = p.value
            with explore.activate(ex):
                fo, fn = Sym.lift(so[idx]), Sym.lift(sn[idx])
                # one-sided section convention (code comments; the seeds are lifted with the positive root of the conjugate variable):
                # q_k-sections count crossings with p_k > 0, p_k-sections those with d q_k/dt > 0, both read at the new state
                dirv = Sym.lift(sn[conj]) if sc in ('q2', 'q3') else Sym.lift(rh[conj])
                spec = And(fo * fn < 0, dirv > 0)
                if crossed:
                    a = Sym.lift(alpha)
                    goals = [spec, a > 0, a < 1, (a * (fo - fn) - fo) == 0]
                else:
                    goals = [Not(spec)]
            v, m, k = ex.prove_all(p, goals)
            ok = ok and v == 'unsat'
        chk.absorb(ex)
        (chk.ok if ok else (lambda o, d: chk.fail(o, d, _replay_detect(sc))))('C14/(1)detect-crossing/%s' % sc,
                                                                                '%d paths: a crossing is reported iff the section coordinate changes sign strictly and moves in the documented direction; then alpha = f_old/(f_old - f_new) in (0,1)' % len(paths))


def _replay_detect(sc):
    return '''
from hiten.algorithms.poincare.centermanifold.backend import _detect_crossing
idx = {'q2': 1, 'p2': 4, 'q3': 2, 'p3': 5}[%r]; conj = {'q2': 4, 'p2': 1, 'q3': 5, 'p3': 2}[%r]
rs = np.random.default_rng(0); bad = []
for _ in range(4000):
    so, sn, rh = rs.normal(size=6), rs.normal(size=6), rs.normal(size=6)
    if rs.random() < 0.1: sn[idx] = 0.0
    c, a = _detect_crossing(%r, so, sn, rh, 3)
    d = sn[conj] if %r in ('q2', 'q3') else rh[conj]
    spec = so[idx] * sn[idx] < 0 and d > 0
    if bool(c) != bool(spec) or (c and not (0 < a < 1 and abs(a - so[idx] / (so[idx] - sn[idx])) < 1e-14)): bad.append((so[idx], sn[idx], d, bool(c), float(a)))
_verdict(bool(bad), mismatches=bad[:3])
''' % (sc, sc, sc, sc)


def poincare_step(chk, cmb, sc, max_steps):
    """Real _poincare_step with the integrator and the vector field uninterpreted: the returned point is the Hermite-refined
    state of the FIRST step whose end states satisfy the crossing rule; time = elapsed + alpha dt."""
    import hiten.algorithms.poincare.utils as pu
    chk.encode(cmb._poincare_step, cmb._integrate_map)
    q2, p2, q3, p3, dt = W.vars('sq2 sp2 sq3 sp3 dt')
    ex = Explorer(max_paths=400)
    with explore.activate(ex):
        ex.assume(dt > 0)
    saved = (cmb._integrate_map, cmb._hamiltonian_rhs)
    steps = []

    def imap(y0=None, t_vals=None, **k):
        new = np.array([opaque('M%d' % i, *[Sym.lift(v) for v in y0]) for i in range(6)])
        steps.append((y0.copy(), new, t_vals))
        return np.array([list(y0), list(new)])
    cmb._integrate_map = imap
    cmb._hamiltonian_rhs = lambda y, j, c, n: np.array([opaque('HF%d' % i, *[Sym.lift(v) for v in y]) for i in range(6)])

    def go():
        del steps[:]
        return cmb._poincare_step(q2, p2, q3, p3, dt, None, None, 4, max_steps, False, 3, sc, 20.0), list(steps)
    try:
        paths = ex.run(go)
    finally:
        cmb._integrate_map, cmb._hamiltonian_rhs = saved
    idx, conj = COORDS[sc]
    ok = True
    detail = ''
    for p in paths:
        (flag, a, b, c, d, tc), st = p.value
        start = [0, q2, q3, 0, p2, p3]
        struct = same(st[0][0], start) and all(same(st[k + 1][0], st[k][1]) for k in range(len(st) - 1)) and all(same(s_[2], [0, dt]) for s_ in st)
        with explore.activate(ex):
            goals = []
            for k, (old, new, _) in enumerate(st):
                rh = [opaque('HF%d' % i, *[Sym.lift(v) for v in new]) for i in range(6)]
                fo, fn = Sym.lift(old[idx]), Sym.lift(new[idx])
                dirv = Sym.lift(new[conj]) if sc in ('q2', 'q3') else rh[conj]
                spec = And(fo * fn < 0, dirv > 0)
                last = k == len(st) - 1
                goals.append(spec if (flag == 1 and last) else Not(spec))
        if flag == 1:
            old, new, _ = st[-1]
            al = Sym.lift(old[idx]) / (Sym.lift(old[idx]) - Sym.lift(new[idx]))
            ro = [opaque('HF%d' % i, *[Sym.lift(v) for v in old]) for i in range(6)]
            rn = [opaque('HF%d' % i, *[Sym.lift(v) for v in new]) for i in range(6)]
            want = [pu._hermite_scalar(al, old[i], new[i], ro[i], rn[i], dt) for i in (1, 4, 2, 5)]
            struct = struct and same([a, b, c, d], want) and same(tc, (len(st) - 1) * dt + al * dt)
        else:
            struct = struct and len(st) == max_steps
        v, m, k = ex.prove_all(p, goals)
        if not (struct and v == 'unsat'):
            ok = False
            detail = 'flag=%s after %d steps: structure %s, solver %s' % (flag, len(st), struct, v)
    chk.absorb(ex)
    (chk.ok if ok else (lambda o, d_: chk.fail(o, d_, None)))('C14/(1)poincare-step/%s' % sc, ('%d paths, <= %d steps: seed embedded with q1 = p1 = 0, steps chained, a return is reported at the first crossing step only, '
                                                                                              'refined by the cubic Hermite through the two end states at alpha, time = elapsed + alpha dt' % (len(paths), max_steps)) if ok else detail)


def poincare_map_schedule(chk, cmb):
    """(3) prange over seeds: iteration i writes only cell i of every output array; outputs of seed i depend only on seed i."""
    chk.encode(cmb._poincare_map)
    n = 4
    seeds = np.array([[W.var('s%d_%d' % (i, c)) for c in range(4)] for i in range(n)])
    saved = cmb._poincare_step
    flags = [1, 0, 1, 1]

    def step(q2, p2, q3, p3, *a):
        k = [Sym.lift(v) for v in (q2, p2, q3, p3)]
        i = [j for j in range(n) if same(k, list(seeds[j]))][0]
        return (flags[i],) + tuple(opaque('R%d' % c, *k) for c in range(5))
    cmb._poincare_step = step
    results = []
    logs = []
    try:
        for order in (list(range(n)), list(reversed(range(n))), [2, 0, 3, 1]):
            log = []
            cur = [None]

            class LA(np.OA):
                def __setitem__(self, idx, val):
                    log.append((cur[0], id(self.base if self.base is not None else self), int(idx) if not isinstance(idx, tuple) else idx))
                    super().__setitem__(idx, val)
            import engine.symnp as snp
            sz = snp.zeros

            def mk(shape, dtype=None, **k):
                a = sz(shape, dtype=dtype)
                if isinstance(a, np.OA):
                    return a.view(LA)
                b = np.OA((shape,) if isinstance(shape, int) else shape, dtype=object)
                b[...] = 0
                return b.view(LA)
            snp.zeros = mk

            def handler(*a, _order=order):
                def gen():
                    for i in _order:
                        cur[0] = i
                        yield i
                    cur[0] = 'after'
                return gen()
            loader.set_prange_handler(handler)
            try:
                out = cmb._poincare_map(seeds, W.var('dt'), None, None, 4, 10, False, 3, 'q3', 20.0)
            finally:
                snp.zeros = sz
                loader.set_prange_handler(None)
            results.append(out)
            logs.append(log)
    finally:
        cmb._poincare_step = saved
    same_all = all(all(same(list(results[0][k]), list(r[k])) for k in range(6)) for r in results[1:])
    own_cell = all(it == cell for log in logs for it, _, cell in log if isinstance(it, int))
    dep = True
    for i in range(n):
        for k in range(1, 6):
            v = Sym.lift(results[0][k][i])
            if flags[i]:
                dep = dep and same(v, opaque('R%d' % (k - 1), *[Sym.lift(x) for x in seeds[i]]))
            else:
                dep = dep and not v.t
    ok = same_all and own_cell and dep
    (chk.ok if ok else (lambda o, d: chk.fail(o, d, _replay_threads())))('C14/(3)poincare-map/schedule', 'three iteration orders give identical outputs; every write of iteration i goes to cell i (no two iterations share a cell: no race for any thread assignment); output i = map(seed i) or zeros when no return')


def _replay_threads():
    return '''
import numba
from hiten.system import System
s = System.from_bodies("earth", "moon"); cm = s.get_libration_point(1).get_center_manifold(degree=4); cm.compute()
from hiten.algorithms.poincare.centermanifold.backend import _poincare_map
hs = cm.dynamics.hamsys if hasattr(cm.dynamics, "hamsys") else cm.dynamics.pipeline.get_hamiltonian("center_manifold_real").hamsys
seeds = np.array([[0.0, 0.0, 0.0, 0.3 + 0.01 * k] for k in range(12)]) * 0.1
def run():
    return _poincare_map(seeds, 0.01, hs.jac_H, hs.clmo_H, 4, 4000, False, 3, "q3", 20.0)
numba.set_num_threads(1); ref = run()
numba.set_num_threads(min(4, numba.config.NUMBA_NUM_THREADS))
diffs = [max(float(np.max(np.abs(np.asarray(a, dtype=float) - np.asarray(b, dtype=float)))) for a, b in zip(run(), ref)) for _ in range(5)]
_verdict(max(diffs) > 1e-12, max_difference=max(diffs))
'''


def _replay_workers():
    """Compiled build: Earth-Moon L1 centre-manifold map, every worker count 1..16 (and two seed counts): same point set as 1 worker."""
    return '''
# NUMBA_NUM_THREADS=4
from hiten.algorithms.poincare.centermanifold.options import CenterManifoldMapOptions
from hiten.algorithms.poincare.core.options import IterationOptions, SeedingOptions
from hiten.algorithms.types.options import IntegrationOptions, WorkerOptions
from hiten.system.base import System
from hiten.system.center import CenterManifold
cm = CenterManifold(System.from_bodies("earth", "moon").get_libration_point(1), 4)
pmap = cm.poincare_map(0.5)
def run(nw, ns):
    o = CenterManifoldMapOptions(integration=IntegrationOptions(dt=1e-2, order=4, c_omega_heuristic=20.0, max_steps=4000), iteration=IterationOptions(n_iter=2),
                                 seeding=SeedingOptions(n_seeds=ns), workers=WorkerOptions(n_workers=nw))
    st = np.asarray(pmap.compute(section_coord="q3", options=o).states, dtype=float)
    return st[np.lexsort(st.T[::-1])] if st.size else st
bad = {}
for ns in (20, 7):
    ref = run(1, ns)
    for nw in range(2, 17):
        got = run(nw, ns)
        if got.shape != ref.shape or not np.allclose(got, ref, rtol=0, atol=1e-9):
            bad["seeds_%d_workers_%d" % (ns, nw)] = "%d points instead of %d" % (got.shape[0], ref.shape[0])
_verdict(bool(bad), **bad)
'''


def engine_workers(chk, n_seeds=4, max_workers=3):
    """(4) for every number of workers <= 3 and every completion order the returned multiset of rows equals the one-worker run."""
    import hiten.algorithms.poincare.centermanifold.engine as eng
    from hiten.algorithms.poincare.centermanifold.interfaces import _CenterManifoldInterface
    from hiten.algorithms.poincare.centermanifold.types import CenterManifoldBackendRequest, CenterManifoldBackendResponse
    chk.encode(eng._CenterManifoldEngine.solve, _CenterManifoldInterface.enforce_section_coordinate, _CenterManifoldInterface.plane_points_from_states)
    S0 = [[W.var('z%d_%d' % (i, c)) for c in range(4)] for i in range(n_seeds)]
    sc = 'q3'
    ex = Explorer(max_paths=3000, time_budget_s=600)
    flag_cache = {}

    class Backend:
        def run(self, request):
            rows, times = [], []
            for r in request.seeds:
                key = tuple(Sym.lift(v).key() for v in r)
                if key not in flag_cache:
                    flag_cache[key] = bool(ex.fresh_bool('returns'))
                if flag_cache[key]:
                    a = [Sym.lift(v) for v in r]
                    rows.append([opaque('B%d' % c, *a) for c in range(4)])
                    times.append(opaque('BT', *a))
            if not rows:
                return CenterManifoldBackendResponse(states=np.empty((0, 4)), times=np.empty((0,)), flags=np.empty((0,), dtype=np.int64), metadata={})
            return CenterManifoldBackendResponse(states=np.array(rows), times=np.array(times), flags=np.ones(len(rows), dtype=np.int64), metadata={})

    perm_holder = {'perm': None}

    class Fut:
        def __init__(self, fn, a):
            self._r = fn(a)

        def result(self):
            return self._r

    class Pool:
        def __init__(self, max_workers=None):
            pass

        def __enter__(self):
            return self

        def __exit__(self, *a):
            return False

        def submit(self, fn, a):
            return Fut(fn, a)

    def as_completed(futs):
        futs = list(futs)
        perm = perm_holder['perm']
        if perm is None or len(perm) != len(futs):
            return futs
        return [futs[i] for i in perm]
    saved = (eng.ThreadPoolExecutor, eng.as_completed)
    eng.ThreadPoolExecutor, eng.as_completed = Pool, as_completed
    iface = _CenterManifoldInterface()
    iface.lift_plane_point = lambda p, **k: tuple(p)
    iface.to_backend_inputs = lambda problem: Stub(request=CenterManifoldBackendRequest(seeds=np.empty((0, 4)), dt=0.01, jac_H=None, clmo_table=None, section_coord=sc, max_steps=10, method='fixed', order=4, c_omega_heuristic=20.0))
    iface.to_results = lambda response, problem=None: response
    engine = object.__new__(eng._CenterManifoldEngine)
    engine._backend = Backend()
    engine._interface = iface
    engine._strategy = Stub(n_seeds=n_seeds, generate=lambda **k: [tuple(r) for r in S0])

    def rows_of(resp):
        st = resp.states
        return sorted(tuple(Sym.lift(v).key() for v in row) for row in st), (None if resp.times is None else sorted(Sym.lift(v).key() for v in resp.times)), st

    def go():
        flag_cache.clear()
        out = []
        for nw in range(1, max_workers + 1):
            nf = min(nw, n_seeds)
            for perm in ([None] if nw == 1 else list(itertools.permutations(range(nf)))):
                perm_holder['perm'] = perm
                problem = Stub(n_iter=2, n_workers=nw, energy=0.5, H_blocks=None, clmo_table=None, section_coord=sc, solve_missing_coord_fn=None, find_turning_fn=None)
                out.append(((nw, perm), rows_of(engine.solve(problem))))
        return out
    try:
        paths = ex.run(go)
    finally:
        eng.ThreadPoolExecutor, eng.as_completed = saved
    ok = True
    nrows = 0
    zero_ok = True
    for p in paths:
        if p.exc is not None:
            ok = False
            continue
        ref = p.value[0][1]
        nrows += len(ref[0])
        for (nw, perm), r in p.value[1:]:
            ok = ok and r[0] == ref[0] and r[1] == ref[1]
        for (_, _), r in p.value:
            for row in r[2]:
                zero_ok = zero_ok and not Sym.lift(row[2]).t       # q3 is column 2 of (q2, p2, q3, p3)
    chk.absorb(ex)
    (chk.ok if ok else (lambda o, d: chk.fail(o, d, _replay_workers(), replay_timeout=1500)))('C14/(4)engine/workers-and-completion-order%s' % ('' if (n_seeds, max_workers) == (4, 3) else '/%d seeds, <= %d workers' % (n_seeds, max_workers)), '%d success patterns of the per-seed map over 2 iterations: the multiset of returned rows and times is the same for 1..%d workers (%d seeds) and every completion order (%d rows in the reference runs)' % (len(paths), max_workers, n_seeds, nrows))
    (chk.ok if zero_ok else (lambda o, d: chk.fail(o, d, None)))('C14/(2)section-coordinate-zero%s' % ('' if (n_seeds, max_workers) == (4, 3) else '/%d seeds' % n_seeds), 'every returned row has its section coordinate exactly 0 (enforce_section_coordinate on each iterate and on the merged result)')
    # index table: rows are (q2, p2, q3, p3)
    from hiten.algorithms.poincare.centermanifold.interfaces import _STATE_INDEX
    okidx = _STATE_INDEX == {'q2': 0, 'p2': 1, 'q3': 2, 'p3': 3}
    arr = np.array([[W.var('e%d' % c) for c in range(4)]])
    for name, col in (('q2', 0), ('p2', 1), ('q3', 2), ('p3', 3)):
        out = iface.enforce_section_coordinate(arr, section_coord=name)
        okidx = okidx and all((not Sym.lift(out[0, c]).t) if c == col else same(out[0, c], arr[0, c]) for c in range(4))
    (chk.ok if okidx else (lambda o, d: chk.fail(o, d, None)))('C14/(2)enforce-section-coordinate/index-map%s' % ('' if (n_seeds, max_workers) == (4, 3) else '/%d seeds' % n_seeds), 'the column zeroed for each section is the one the backend stores that coordinate in; the others are untouched')


def main():
    chk = Check(PID)
    chk.default_replay = _replay_workers
    thorough = chk.tier == 'thorough'
    import hiten.algorithms.poincare.centermanifold.backend as cmb
    chk.bound(seeds='4 (thorough: also 5 and 7)', iterations='2 map iterations', workers='1..3 with every completion order (thorough: 1..4)', steps='<= 2 integration steps per return (thorough: 3)', sections='q2, p2, q3, p3')
    chk.assume('direction convention of the one-sided sections as in the code comments: conjugate momentum > 0 for q-sections, time derivative of the conjugate coordinate > 0 for p-sections', 'the one-step integrator and the Hamiltonian vector field are uninterpreted in the stepping obligations; the per-seed return map with a free success flag per seed in the engine obligation',
               'thread pool and as_completed replaced by a deterministic stand-in that completes futures in each chosen order')
    chk.out_of_scope('energy conservation along map iterates and accuracy of the Hermite-refined point (numerics)', 'the RK copy used by the map equals the generic kernel: C02-(4)', 'seed lifting to the energy level: C09-(4)')
    detect_crossing(chk, cmb)
    for sc in ('q3', 'p3', 'q2', 'p2'):
        poincare_step(chk, cmb, sc, 3 if thorough else 2)
    poincare_map_schedule(chk, cmb)
    engine_workers(chk)
    if thorough:
        engine_workers(chk, n_seeds=5, max_workers=4)
        engine_workers(chk, n_seeds=7, max_workers=3)
    return chk.finish()


if __name__ == '__main__':
    sys.exit(main())

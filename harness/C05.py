"""C05 — a successful differential correction yields a genuinely periodic orbit (decidable core: what the solver returns)."""
from __future__ import annotations

import sys
from fractions import Fraction

from harness.common import *  # noqa: F401,F403
from harness.common import np, Explorer, Check, Sym, W, explore, Stub, normal, prove_zero, model_to_env, fmt_env, opaque, And, Or, Not, Implies
from harness.drivers import same, constrain
import engine.symnp as snp

PID = 'C05'
DIM = 2


def Rfn(x):
    a = [Sym.lift(v) for v in np.asarray(x).reshape(-1)]
    return np.array([opaque('R%d' % i, *a) for i in range(DIM)])


def Nfn(r):
    return constrain(opaque('N', *[Sym.lift(v) for v in np.asarray(r).reshape(-1)]), lo=0)


def Jfn(x):
    a = [Sym.lift(v) for v in np.asarray(x).reshape(-1)]
    return np.array([[opaque('J%d%d' % (i, j), *a) for j in range(DIM)] for i in range(DIM)])


def newton(chk, stepper_kind, max_attempts, budget):
    from hiten.algorithms.corrector.backends.newton import _NewtonBackend
    from hiten.algorithms.corrector.types import CorrectorInput
    from hiten.algorithms.corrector.stepping import make_plain_stepper, make_armijo_stepper
    from hiten.algorithms.types.exceptions import ConvergenceError
    x0 = np.array([W.var('x0'), W.var('x1')])
    tol, maxd = W.vars('tol max_delta')
    tag = '%s/max_attempts=%d' % (stepper_kind, max_attempts)
    ex = Explorer(max_paths=8000, time_budget_s=budget, max_decisions=250)
    ex.abs_by_branch = False
    with explore.activate(ex):
        ex.assume(tol > 0)
        ex.assume(maxd > 0)
    saved = dict(snp.LINALG_STUBS)
    snp.LINALG_STUBS['cond'] = lambda J: constrain(opaque('cond', *[Sym.lift(v) for v in np.asarray(J).reshape(-1)]), lo=1)
    snp.LINALG_STUBS['solve'] = lambda A, b: np.array([opaque('delta%d' % i, *[Sym.lift(v) for v in list(np.asarray(A).reshape(-1)) + list(np.asarray(b).reshape(-1))]) for i in range(DIM)])
    if stepper_kind == 'plain':
        factory = make_plain_stepper()
    else:
        # any step strategy: uninterpreted new iterate, may also fail (free boolean) -- the real Armijo search is obligation group (2)
        def factory(residual_fn, norm_fn, max_delta):
            def step(x, delta, current_norm):
                if bool(ex.fresh_bool('stepper_fails')):
                    raise RuntimeError('line search failed')
                a = [Sym.lift(v) for v in list(x) + list(delta)]
                xn = np.array([opaque('step%d' % i, *a) for i in range(DIM)])
                return xn, norm_fn(residual_fn(xn)), opaque('alpha', *a)
            return step

    def go():
        be = _NewtonBackend(stepper_factory=factory)
        be.on_iteration = lambda *a, **k: None
        be.on_accept = lambda *a, **k: None
        be.on_failure = lambda *a, **k: None
        req = CorrectorInput(initial_guess=x0, residual_fn=Rfn, jacobian_fn=Jfn, norm_fn=Nfn, max_attempts=max_attempts, tol=tol, max_delta=maxd, fd_step=1e-8)
        return be.run(request=req)
    try:
        paths = ex.run(go)
    finally:
        snp.LINALG_STUBS.clear()
        snp.LINALG_STUBS.update(saved)
    nret = nraise = 0
    for n, p in enumerate(paths):
        base = 'C05/(1)newton/%s/path %d' % (tag, n)
        if isinstance(p.exc, explore.PathAbort):
            continue
        if p.exc is not None:
            if isinstance(p.exc, ConvergenceError):
                nraise += 1
                chk.ok(base, 'raises ConvergenceError (no state is handed back)', nontrivial=False)
            else:
                chk.fail(base, 'raises %s instead of ConvergenceError: %s' % (type(p.exc).__name__, str(p.exc)[:100]), None)
            continue
        out = p.value
        nret += 1
        want_norm = Nfn(Rfn(out.x_corrected))
        struct = same(out.residual_norm, want_norm) and 0 <= out.iterations <= max_attempts
        with explore.activate(ex):
            goal = Sym.lift(out.residual_norm) < tol
        v, m = ex.prove(p, goal)
        if struct and v == 'unsat':
            chk.ok(base, 'returns after %d iterations with residual_norm = N(R(x_corrected)) < tol' % out.iterations, sample={'iterations': out.iterations, 'decisions': len(p.decisions)} if n in (0, 3) else None)
        elif v == 'sat' or not struct:
            env = model_to_env(m) if m is not None else {}
            chk.fail(base, 'a state is returned whose reported residual is not the norm of its own residual, or is not below the tolerance (%s)' % fmt_env(env), _replay_newton(), env)
        else:
            chk.unknown(base, v)
    st = chk.absorb(ex)
    chk.note('newton %s: %d paths, %d returns, %d ConvergenceError' % (tag, st['paths'], nret, nraise))


def _replay_newton():
    return '''
from hiten.algorithms.corrector.backends.newton import _NewtonBackend
from hiten.algorithms.corrector.types import CorrectorInput
from hiten.algorithms.types.exceptions import ConvergenceError
bad = []
for tol, scale in ((1e-10, 1.0), (1e-6, 3.0)):
    res = lambda x: np.array([x[0]**3 - 2.0 + 1e-3 * x[1], x[1] * scale])
    for attempts in (1, 2, 3, 6):
        try:
            out = _NewtonBackend().run(request=CorrectorInput(initial_guess=np.array([1.5, 0.2]), residual_fn=res, jacobian_fn=None, norm_fn=None,
                                                               max_attempts=attempts, tol=tol, max_delta=None, fd_step=1e-7))
            true_norm = float(np.linalg.norm(res(out.x_corrected)))
            if not (true_norm < tol) or abs(true_norm - out.residual_norm) > 1e-15: bad.append((tol, attempts, true_norm, out.residual_norm))
        except ConvergenceError:
            pass
_verdict(bool(bad), returned_unconverged=bad[:3])
'''


def armijo(chk, budget, with_raise):
    from hiten.algorithms.corrector.stepping.armijo import _ArmijoLineSearch
    from hiten.algorithms.types.exceptions import BackendError
    x0 = np.array([W.var('x0'), W.var('x1')])
    delta = np.array([W.var('d0'), W.var('d1')])
    cur, maxd = W.vars('current_norm max_delta')
    ex = Explorer(max_paths=8000, time_budget_s=budget, max_decisions=250)
    ex.abs_by_branch = False
    with explore.activate(ex):
        ex.assume(cur > 0)
        ex.assume(maxd > 0)
    trials = []

    def res(x):
        if with_raise and bool(ex.fresh_bool('raise')):
            raise RuntimeError('propagation failed')
        r = Rfn(x)
        trials.append((x, r))
        return r
    ls = _ArmijoLineSearch(residual_fn=res, norm_fn=Nfn, max_delta=maxd, alpha_reduction=0.5, min_alpha=Fraction(1, 16), armijo_c=Fraction(1, 10))

    def go():
        del trials[:]
        return ls(x0=x0, delta=delta, current_norm=cur), list(trials)
    paths = ex.run(go)
    for n, p in enumerate(paths):
        base = 'C05/(2)armijo%s/path %d' % ('+faults' if with_raise else '', n)
        if isinstance(p.exc, explore.PathAbort):
            continue
        if p.exc is not None:
            if isinstance(p.exc, BackendError):
                chk.ok(base, 'no productive step: BackendError', nontrivial=False)
            else:
                chk.fail(base, 'raises %r' % (p.exc,), _replay_armijo())
            continue
        (x_new, norm_new, alpha), tr = p.value
        with explore.activate(ex):
            dx = [Sym.lift(x_new[i]) - x0[i] for i in range(DIM)]
            goals = [Sym.lift(norm_new) <= cur]
            for i in range(DIM):
                goals += [dx[i] <= maxd, dx[i] >= -maxd]
            goals += [Sym.lift(alpha) > 0, Sym.lift(alpha) <= 1]
        struct = same(norm_new, Nfn(Rfn(x_new)))
        v, m, k = ex.prove_all(p, goals)
        if struct and v == 'unsat':
            chk.ok(base, 'returned |R| = N(R(x_new)) <= current norm, |x_new - x0|_inf <= max_delta, alpha in (0,1] after %d trials' % len(tr),
                   sample={'trials': len(tr), 'alpha': repr(Sym.lift(alpha))} if n in (0, 4) else None)
        elif v == 'sat' or not struct:
            env = model_to_env(m) if m is not None else {}
            chk.fail(base, 'line-search contract goal %d fails at %s' % (k, fmt_env(env)), _replay_armijo(), env)
        else:
            chk.unknown(base, v)
    st = chk.absorb(ex)
    chk.note('armijo%s: %d paths' % ('+faults' if with_raise else '', st['paths']))


def _replay_armijo():
    return '''
from hiten.algorithms.corrector.stepping.armijo import _ArmijoLineSearch
from hiten.algorithms.types.exceptions import BackendError
rs = np.random.default_rng(3)
bad = []
for trial in range(300):
    A = rs.normal(size=(2, 2)); b = rs.normal(size=2); c = rs.normal(size=2)
    res = lambda x: A @ x + b + c * np.sin(3 * x)
    x0 = rs.normal(size=2); delta = rs.normal(size=2) * 10 ** rs.uniform(-2, 1); maxd = 10 ** rs.uniform(-2, 0)
    cur = float(np.linalg.norm(res(x0)))
    try:
        xn, nn, al = _ArmijoLineSearch(residual_fn=res, max_delta=maxd)(x0=x0, delta=delta, current_norm=cur)
    except BackendError:
        continue
    if nn > cur * (1 + 1e-12) or np.max(np.abs(xn - x0)) > maxd * (1 + 1e-12) or abs(nn - np.linalg.norm(res(xn))) > 1e-12: bad.append((trial, nn, cur, float(np.max(np.abs(xn - x0))), maxd))
_verdict(bool(bad), violations=bad[:3])
'''


def plain_step(chk):
    from hiten.algorithms.corrector.stepping import make_plain_stepper
    x0 = np.array([W.var('x0'), W.var('x1')])
    delta = np.array([W.var('d0'), W.var('d1')])
    cur, maxd = W.vars('current_norm max_delta')
    ex = Explorer(max_paths=400)
    ex.abs_by_branch = False
    with explore.activate(ex):
        ex.assume(maxd > 0)
    step = make_plain_stepper()(Rfn, Nfn, maxd)
    paths = ex.run(lambda: step(x0, delta, cur))
    ok = True
    for p in paths:
        x_new, nn, sc = p.value
        with explore.activate(ex):
            goals = []
            for i in range(DIM):
                dx = Sym.lift(x_new[i]) - x0[i]
                goals += [dx <= maxd, dx >= -maxd]
        v, m, k = ex.prove_all(p, goals)
        ok = ok and v == 'unsat' and same(nn, Nfn(Rfn(x_new)))
    chk.absorb(ex)
    (chk.ok if ok else (lambda o, d: chk.fail(o, d, None)))('C05/(2)plain-step', '%d paths: |x_new - x|_inf <= max_delta and the reported norm is N(R(x_new))' % len(paths))


def shooting_jacobian(chk):
    """(3) the single-shooting Jacobian with the halo extra term is the implicit-function derivative of the residual at the
    plane crossing: Phi[res, ctrl] - f_res(x_ev) * Phi[y, ctrl] / ydot with f the real CR3BP field."""
    import hiten.algorithms.corrector.operators as ops
    import hiten.algorithms.dynamics.rtbp as rtbp
    from hiten.algorithms.types.services import orbits as so
    chk.encode(ops._SingleShootingOrbitOperators.build_jacobian_fn, ops._SingleShootingOrbitOperators.build_residual_fn, ops._SingleShootingOrbitOperators.reconstruct_full_state,
               so._HaloOrbitCorrectionService._halo_quadratic_term if hasattr(so, '_HaloOrbitCorrectionService') else so._OrbitCorrectionService)
    mu = W.var('mu')
    base = np.array([W.var('b%d' % i) for i in range(6)])
    xe = [W.var(n) for n in ['ex', 'ey', 'ez', 'evx', 'evy', 'evz']]
    Phi = np.array([[W.var('F%d%d' % (i, j)) for j in range(6)] for i in range(6)])
    te = W.var('t_event')
    params = np.array([W.var('p0'), W.var('p1')])
    halo_cls = [c for n, c in vars(so).items() if isinstance(c, type) and '_halo_quadratic_term' in c.__dict__][0]
    svc = Stub(domain_obj=Stub(mu=mu))
    extra = lambda X, P: halo_cls._halo_quadratic_term(svc, X, P)
    seen = {}

    def ev(dynsys=None, x0=None, forward=1):
        seen['x0'] = x0
        return te, np.array(xe)
    for sgn in (1, -1):
        ex = Explorer()
        with explore.activate(ex):
            ex.assume(xe[4] * sgn >= Fraction(1, 1000))
            for c in (mu > 0, mu <= Fraction(1, 2)):
                ex.assume(c)
            o = ops._SingleShootingOrbitOperators(domain_obj=Stub(initial_state=base, dynamics=Stub(dynsys='DYN', var_dynsys='VAR')), control_indices=(0, 4), residual_indices=(3, 5),
                                                  target=(0.0, 0.0), extra_jacobian=extra, event_func=ev, forward=1, method='adaptive', order=8, steps=100)
            o._compute_stm = lambda x0, dt: Phi.copy()
            jac = o.build_jacobian_fn()(params)
            res = o.build_residual_fn()(params)
            f = rtbp._crtbp_accel(np.array(xe), mu)
        full_ok = same(seen['x0'], [params[0], base[1], base[2], base[3], params[1], base[5]])
        ok = full_ok and same(res, [xe[3], xe[5]])
        bad = None
        for a, ri in enumerate((3, 5)):
            for b_, ci in enumerate((0, 4)):
                want = Phi[ri, ci] - Sym.lift(f[ri]) * Phi[1, ci] / xe[4]
                v, m, info = prove_zero(ex, Sym.lift(jac[a, b_]) - want)
                if v != 'unsat':
                    bad = (ri, ci, m)
        oid = 'C05/(3)shooting-jacobian/ydot%s0' % ('>' if sgn > 0 else '<')
        if ok and bad is None:
            chk.ok(oid, 'controls (x0, vy0) written into the base state, residual (vx, vz) at the crossing, Jacobian = Phi[res,ctrl] - a_res(x_ev) Phi[y,ctrl]/ydot with a = real CR3BP acceleration')
        else:
            env = model_to_env(bad[2]) if bad and bad[2] is not None else {}
            chk.fail(oid, 'the shooting Jacobian is not the derivative of the crossing residual (entry %s) at %s' % ((bad[0], bad[1]) if bad else 'structure', fmt_env(env)), None, env)
        chk.absorb(ex)


def _replay_period_carry():
    """Compiled build: an orbit that already carries a provisional period (far from, equal to, or very close to the corrected one, as
    continuation does when it lets a new member inherit the seed's period) is corrected: it must carry exactly the returned period."""
    return '''
import warnings; warnings.filterwarnings("ignore")
from hiten.system import System
l1 = System.from_bodies("earth", "moon").get_libration_point(1)
scout = l1.create_orbit("halo", amplitude_z=0.02, zenith="southern"); scout.correct(); pstar = float(scout.period)
bad = {}
for name, prov in (("none", None), ("far", 2.0 * np.pi), ("equal", pstar), ("close_above", pstar * (1 + 4e-6)), ("close_below", pstar * (1 - 4e-6)), ("close_abs", pstar + 5e-9)):
    o = l1.create_orbit("halo", amplitude_z=0.02 + 2e-5, zenith="southern")
    if prov is not None: o.period = prov
    res = o.correct()
    want = 2.0 * float(res.half_period)
    if float(o.period) != want: bad["provisional_period_" + name] = "orbit carries %.15g, correction returned %.15g" % (float(o.period), want)
    if not np.array_equal(np.asarray(o.initial_state, dtype=float), np.asarray(res.x_corrected, dtype=float)): bad["state_" + name] = "orbit does not carry the corrected state"
_verdict(bool(bad), **bad)
'''


def period_bookkeeping(chk):
    """(4) period = 2 * half_period, corrected state written back, caches reset; the interface packages the corrected state."""
    from hiten.algorithms.types.services import orbits as so
    from hiten.algorithms.corrector.interfaces import _OrbitCorrectionInterface
    from hiten.algorithms.corrector.types import CorrectorOutput
    chk.encode(so._OrbitCorrectionService.apply_correction, so._OrbitCorrectionService.correct, _OrbitCorrectionInterface.to_domain, _OrbitCorrectionInterface._half_period)
    hp = W.var('half_period')
    xf = np.array([W.var('c%d' % i) for i in range(6)])
    events = []

    class Dyn:
        _initial_state = None
        _period = None

        def reset(self):
            events.append('reset')

        @property
        def period(self):
            return self._period

        @period.setter
        def period(self, v):
            events.append('period')
            self._period = v

        @property
        def initial_state(self):
            return self._initial_state
    dyn = Dyn()
    svc = Stub(domain_obj=Stub(dynamics=dyn))
    payload = Stub(x_full=xf, half_period=hp)
    with explore.activate(Explorer()):
        so._OrbitCorrectionService.apply_correction(svc, payload)
    ok = same(dyn._initial_state, xf) and same(dyn._period, 2 * hp) and events[0] == 'reset'
    (chk.ok if ok else (lambda o, d: chk.fail(o, d, None)))('C05/(4)apply_correction', 'caches reset first, then initial state := corrected state, period := 2 * half_period')
    # the same through the REAL dynamics service (its own period setter), for every period the orbit may carry beforehand:
    # afterwards the orbit's period is exactly 2 * half_period and its state exactly the corrected one
    real_cls = type('DynReal', (so._OrbitDynamicsService,), {})
    real_cls.__abstractmethods__ = frozenset()
    p_old = W.var('period_before')
    exr = Explorer(max_paths=200)
    with explore.activate(exr):
        exr.assume(p_old > 0)
        exr.assume(hp > 0)

    def go_real():
        dom = Stub(_initial_state=np.array([W.var('s%d' % i) for i in range(6)]), _libration_point=Stub(system=Stub(mu=W.var('mu'), dynsys='DYN', var_dynsys='VAR')))
        d = real_cls(dom)
        dom.dynamics = d
        d.period = p_old
        so._OrbitCorrectionService.apply_correction(Stub(domain_obj=dom), Stub(x_full=xf, half_period=hp))
        return d
    bad_real = None
    paths_real = exr.run(go_real)
    for pth in paths_real:
        if pth.exc is not None:
            bad_real = ('raised %r' % (pth.exc,), None)
            break
        d = pth.value
        with explore.activate(exr):
            goals = [Sym.lift(d.period) - 2 * hp == 0] + [Sym.lift(d.initial_state[i]) - xf[i] == 0 for i in range(6)]
        goals = [g for g in goals if g is not True]
        v, m_, kk = exr.prove_all(pth, goals) if goals else ('unsat', None, None)
        if v != 'unsat':
            bad_real = ('after the correction is applied the orbit carries period %s instead of 2 * half_period' % (d.period,) if kk == 0 else 'corrected state component not written back', m_)
            break
    chk.absorb(exr)
    oid_r = 'C05/(4)apply_correction/real period setter'
    if bad_real is None:
        chk.ok(oid_r, '%d paths of the real period setter, symbolic previous period: period = 2 * half_period and state = corrected state afterwards' % len(paths_real))
    else:
        env_r = model_to_env(bad_real[1]) if bad_real[1] is not None else {}
        chk.fail(oid_r, '%s, e.g. at %s' % (bad_real[0], fmt_env(env_r)), _replay_period_carry(), env_r)
    # correct(): returns (x_corrected, 2*half_period, result) of this very correction
    result = Stub(x_corrected=xf, half_period=hp, iterations=3, residual_norm=W.var('rn'))
    svc2 = Stub(correction_options=Stub(to_dict=lambda: {}), make_key=lambda *a: a, get_or_create=lambda k, f: f(), corrector=Stub(correct=lambda d, options=None: result),
                domain_obj=Stub(dynamics=dyn), apply_correction=lambda pl: events.append(('apply', pl)))
    with explore.activate(Explorer()):
        st, per, res = so._OrbitCorrectionService.correct(svc2)
    ok2 = same(st, xf) and same(per, 2 * hp) and res is result and any(isinstance(e, tuple) for e in events)
    (chk.ok if ok2 else (lambda o, d: chk.fail(o, d, None)))('C05/(4)correct() packaging', 'returns the corrected state, period = 2 * half_period of this correction, and applies it to the orbit')
    # interface: corrected controls are written into the orbit's state; half period from the event at the corrected state
    iface = _OrbitCorrectionInterface()
    base = np.array([W.var('s%d' % i) for i in range(6)])
    seen = {}

    def ev(dynsys=None, x0=None, forward=1):
        seen['x0'] = x0
        return hp, x0
    problem = Stub(control_indices=(0, 4), domain_obj=Stub(initial_state=base, dynamics=Stub(dynsys='D')), event_func=ev, forward=1)
    pc = np.array([W.var('u0'), W.var('u1')])
    with explore.activate(Explorer()):
        pl = iface.to_domain(CorrectorOutput(x_corrected=pc, iterations=2, residual_norm=W.var('rn')), problem=problem)
    want = [pc[0], base[1], base[2], base[3], pc[1], base[5]]
    ok3 = same(pl.x_full, want) and same(seen['x0'], want) and same(pl.half_period, hp)
    (chk.ok if ok3 else (lambda o, d: chk.fail(o, d, None)))('C05/(4)interface.to_domain', 'full state = base state with the corrected controls; half period measured from that corrected state')


def _replay_general():
    """General confirmation on the compiled build: every orbit family at Earth-Moon L1 and L2 is corrected from its analytic guess;
    the corrected state must return to its symmetric crossing after half the reported period with the family's residual below the
    tolerance, must close after the full period, and the orbit must carry exactly the returned state and period."""
    return '''
import warnings; warnings.filterwarnings("ignore")
from hiten.system import System
from hiten.algorithms.dynamics.base import _propagate_dynsys
sysm = System.from_bodies("earth", "moon"); bad = {}
def flow(x, tf):
    sol = _propagate_dynsys(dynsys=sysm.dynsys, state0=np.asarray(x, dtype=float), t0=0.0, tf=tf, forward=1, steps=2000, method="adaptive", order=8)
    return np.asarray(sol.states[-1], dtype=float)
for k in (1, 2):
    lp = sysm.get_libration_point(k)
    for fam, kw in (("halo", dict(amplitude_z=0.02, zenith="southern")), ("halo", dict(amplitude_z=0.04, zenith="northern")), ("lyapunov", dict(amplitude_x=0.01)), ("vertical", dict(initial_state=None))):
        tag = "L%d_%s_%s" % (k, fam, "_".join(str(v) for v in kw.values()))
        try:
            o = lp.create_orbit(fam, **{a: b for a, b in kw.items() if b is not None})
            res = o.correct()
        except Exception as e:
            if fam == "vertical": continue        # needs an explicit guess; not part of this confirmation
            bad[tag] = "correction raised %s" % repr(e)[:80]; continue
        x0, T = np.asarray(o.initial_state, dtype=float), float(o.period)
        if not np.allclose(x0, np.asarray(res.x_corrected, dtype=float), rtol=0, atol=0): bad[tag + "_state"] = "orbit does not carry the returned state"; continue
        if abs(T - 2.0 * float(res.half_period)) > 1e-14 * max(1.0, T): bad[tag + "_period"] = "period %.15g is not twice the returned half period %.15g" % (T, float(res.half_period)); continue
        xh = flow(x0, 0.5 * T)
        # symmetric families: perpendicular crossing of the y = 0 plane after half a period
        if abs(xh[1]) > 1e-7 or abs(xh[3]) > 1e-6 or (fam == "halo" and abs(xh[5]) > 1e-6): bad[tag + "_half_period_crossing"] = "y=%.2e vx=%.2e vz=%.2e at T/2" % (xh[1], xh[3], xh[5]); continue
        xT = flow(x0, T)
        if float(np.max(np.abs(xT - x0))) > 1e-5: bad[tag + "_closure"] = "|x(T) - x(0)| = %.2e" % float(np.max(np.abs(xT - x0)))
_verdict(bool(bad), **bad)
'''


def main():
    chk = Check(PID)
    chk.default_replay = _replay_general
    thorough = chk.tier == 'thorough'
    from hiten.algorithms.corrector.backends.newton import _NewtonBackend
    from hiten.algorithms.corrector.backends.base import _CorrectorBackend
    from hiten.algorithms.corrector.stepping.armijo import _ArmijoLineSearch
    from hiten.algorithms.corrector.stepping.plain import _CorrectorPlainStep
    chk.encode(_NewtonBackend.run, _CorrectorBackend._solve_delta_dense, _ArmijoLineSearch.__call__, _CorrectorPlainStep._make_plain_stepper)
    chk.bound(newton='max_attempts <= %d, dimension 2' % (3 if thorough else 2), armijo='5 backtracking steps (alpha = 1 .. 1/16), dimension 2%s' % (', residual evaluation may fail on any trial' if thorough else ''))
    chk.assume('residual map R, norm N (>= 0), Jacobian and the linear solve (LAPACK: cond >= 1, solve) are uninterpreted functions', 'tol > 0, max_delta > 0, current norm > 0',
               'shooting Jacobian: |ydot| >= 1e-3 at the crossing (the |vy| < 1e-9 guard is excluded by precondition)')
    chk.out_of_scope('"propagating the corrected state for one period returns to the start": needs the flow map (follows from the decided facts, the CR3BP symmetry and C02)', 'convergence rate',
                     'multiple-shooting correction')
    newton(chk, 'plain', 2, 300)
    newton(chk, 'abstract-stepper', 2 if not thorough else 3, 400)
    if thorough:
        newton(chk, 'plain', 3, 900)
        newton(chk, 'abstract-stepper', 4, 1800)
    armijo(chk, 400, False)
    if thorough:
        armijo(chk, 1800, True)
    plain_step(chk)
    shooting_jacobian(chk)
    period_bookkeeping(chk)
    return chk.finish()


if __name__ == '__main__':
    sys.exit(main())

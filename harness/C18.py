"""C18 — Hamiltonian-form conversions and coordinate changes run and are mutually inverse."""
from __future__ import annotations

import sys
from fractions import Fraction

from harness.common import *  # noqa: F401,F403
from harness.common import np, Explorer, Check, Sym, W, explore, Stub, normal, validate
from harness import polyref as R
from harness.drivers import same
import engine.symnp as snp

PID = 'C18'

P_SPEC = {2: [(1, 0, 0, 1, 0, 0), (0, 2, 0, 0, 0, 0), (0, 0, 0, 0, 2, 0), (0, 0, 2, 0, 0, 0), (0, 0, 0, 0, 0, 2), (0, 1, 0, 0, 0, 1)],
          3: [(0, 1, 0, 0, 1, 1), (1, 0, 2, 0, 0, 0), (0, 0, 0, 1, 0, 2)]}


def make_points():
    """Stand-in libration points that are genuine instances of the real classes (isinstance dispatch in the wrappers),
    with a symbolic symplectic-shear normal-form matrix whose inverse is known in closed form."""
    from hiten.system.libration.collinear import CollinearPoint
    from hiten.system.libration.triangular import TriangularPoint
    a = [W.var('a%d' % i) for i in range(3)]
    b = [W.var('b%d' % i) for i in range(3)]
    C = [[Sym.const(0) for _ in range(6)] for _ in range(6)]
    Ci = [[Sym.const(0) for _ in range(6)] for _ in range(6)]
    for i in range(3):
        C[i][i], C[i][3 + i], C[3 + i][3 + i] = a[i], b[i], 1 / a[i]
        Ci[i][i], Ci[i][3 + i], Ci[3 + i][3 + i] = 1 / a[i], -b[i], a[i]
    # couple the first two degrees of freedom by a unimodular point transformation (q1,q2) -> (q1+q2, q2), (p1,p2) -> (p1, p2-p1)
    S = [[Sym.const(1 if i == j else 0) for j in range(6)] for i in range(6)]
    Si = [[Sym.const(1 if i == j else 0) for j in range(6)] for i in range(6)]
    S[0][1] = Sym.const(1)
    S[4][3] = Sym.const(-1)
    Si[0][1] = Sym.const(-1)
    Si[4][3] = Sym.const(1)

    def mm(A, B):
        return [[sum((A[i][k] * B[k][j] for k in range(6)), Sym.const(0)) for j in range(6)] for i in range(6)]
    Cf, Cfi = mm(C, S), mm(Si, Ci)
    lam, om1, om2 = W.vars('lam om1 om2')
    gamma, mu, aa = W.vars('gamma mu a_off')

    def build(base, sign):
        cls = type('Fake' + base.__name__, (base,), {
            'normal_form_transform': property(lambda self: (np.array(Cf), np.array(Cfi))),
            'linear_modes': property(lambda self: (lam, om1, om2)),
            'mu': property(lambda self: mu),
            'idx': property(lambda self: 1),
            'dynamics': property(lambda self: Stub(gamma=gamma, sign=sign, a=aa, linear_modes=(lam, om1, om2), normal_form_transform=(np.array(Cf), np.array(Cfi)))),
        })
        cls.__abstractmethods__ = frozenset()
        return object.__new__(cls)
    global _PT5
    _PT5 = build(TriangularPoint, -1)       # L5 stand-in (sign -1); L4 is returned in the tuple
    return build(CollinearPoint, 1), build(CollinearPoint, -1), build(TriangularPoint, 1), (Cf, Cfi), (gamma, mu, aa)


_PT5 = None


def _replay_pointmaps():
    """Real build: synodic <-> local maps at all five Earth-Moon points: both round trips on random points, and the equilibrium at
    rest is the local origin."""
    return '''
import warnings; warnings.filterwarnings("ignore")
from hiten.system import System
from hiten.algorithms.hamiltonian import transforms as tf
sysm = System.from_bodies("earth", "moon"); rs = np.random.default_rng(18); bad = {}
for k in (1, 2, 3, 4, 5):
    pt = sysm.get_libration_point(k)
    f, g = (tf._local2synodic_collinear, tf._synodic2local_collinear) if k <= 3 else (tf._local2synodic_triangular, tf._synodic2local_triangular)
    for _ in range(5):
        c = 0.1 * rs.normal(size=6)
        e1 = float(np.max(np.abs(np.real(g(pt, f(pt, c))) - c))); syn = np.real(f(pt, c)); e2 = float(np.max(np.abs(np.real(f(pt, g(pt, syn))) - syn)))
        if e1 > 1e-10 or e2 > 1e-10: bad["L%d_roundtrip" % k] = [e1, e2]
    eq = np.concatenate([np.asarray(pt.position, dtype=float), np.zeros(3)])
    e3 = float(np.max(np.abs(np.real(g(pt, eq))))); e4 = float(np.max(np.abs(np.real(f(pt, np.zeros(6))) - eq)))
    if e3 > 1e-9 or e4 > 1e-9: bad["L%d_equilibrium_is_not_the_local_origin" % k] = [e3, e4]
_verdict(bool(bad), **bad)
'''


def _replay_general():
    """General confirmation on the compiled build: a generic polynomial with complex coefficients pushed through every real<->complex
    registry edge and the physical<->modal edge at L1 and L2: round trips return the coefficients, and each converted polynomial
    agrees point-wise with the corresponding coordinate map."""
    return '''
import warnings; warnings.filterwarnings("ignore")
from numba.typed import List
from hiten.algorithms.hamiltonian.transforms import _solve_complex, _solve_real, _coordrealmodal2local, _coordlocal2realmodal
from hiten.algorithms.polynomial.base import _init_index_tables
from hiten.algorithms.polynomial.operations import _polynomial_evaluate
from hiten.system import System
from hiten.system.hamiltonian import Hamiltonian
import hiten.algorithms.hamiltonian.wrappers  # registers the conversion edges
DEG = 4
psi, clmo = _init_index_tables(DEG); rng = np.random.default_rng(18)
def rnd(cplx=True):
    out = List()
    for d in range(DEG + 1):
        c = rng.uniform(-1, 1, int(psi[6, d])).astype(np.complex128)
        if cplx: c = c + 1j * rng.uniform(-1, 1, int(psi[6, d]))
        out.append(c)
    return out
def cp(p):
    out = List()
    for c in p: out.append(np.array(c, dtype=np.complex128))
    return out
def diff(p, q): return max(float(np.max(np.abs(np.asarray(a) - np.asarray(b)))) for a, b in zip(p, q))
def ev(p, z): return complex(_polynomial_evaluate(p, np.asarray(z, dtype=np.complex128), clmo))
bad = {}
sysm = System.from_bodies("earth", "moon")
for k in (1, 2, 4, 5):
    pt = sysm.get_libration_point(k); P = rnd(); MIX = (1, 2) if k <= 3 else (0, 1, 2)      # triangular points mix all three pairs
    for r, c in (("real_modal", "complex_modal"), ("real_partial_normal", "complex_partial_normal"), ("center_manifold_real", "center_manifold_complex"), ("real_full_normal", "complex_full_normal")):
        for a, b in ((r, c), (c, r)):
            tag = "L%d_%s_to_%s" % (k, a, b)
            try:
                h = Hamiltonian(cp(P), DEG, 3, name=a); mid = h.to_state(b, point=pt); back = mid.to_state(a, point=pt)
            except Exception as e:
                bad[tag] = "conversion raised %s" % repr(e)[:80]; continue
            d = diff(back.poly_H, P)
            if d > 1e-9: bad[tag + "_roundtrip"] = "coefficients differ by %.2e after converting there and back" % d; continue
            for _ in range(3):
                z = rng.uniform(-0.6, 0.6, 6) + 1j * rng.uniform(-0.6, 0.6, 6)
                # value at a point of the target form = value at the mapped point of the source form
                src_pt = _solve_real(z, mix_pairs=MIX) if b == c else _solve_complex(z, mix_pairs=MIX)
                va, vb = ev(h.poly_H, src_pt), ev(mid.poly_H, z)
                if abs(va - vb) > 1e-9 * max(1.0, abs(va)): bad[tag + "_pointwise"] = "H_target(z) = %s but H_source(map z) = %s" % (vb, va); break
    # physical <-> real_modal against the linear coordinate change (collinear points)
    if k > 3: continue
    Pr = rnd(cplx=False)
    try:
        hp = Hamiltonian(cp(Pr), DEG, 3, name="physical"); hm = hp.to_state("real_modal", point=pt)
        for _ in range(3):
            x = rng.uniform(-0.5, 0.5, 6)
            va, vb = ev(hp.poly_H, _coordrealmodal2local(pt, x)), ev(hm.poly_H, x)
            if abs(va - vb) > 1e-8 * max(1.0, abs(va)): bad["L%d_physical_to_real_modal_pointwise" % k] = "H_modal(x) = %s but H_physical(C x) = %s" % (vb, va); break
            if float(np.max(np.abs(np.asarray(_coordlocal2realmodal(pt, _coordrealmodal2local(pt, x))) - x))) > 1e-10: bad["L%d_modal_local_roundtrip" % k] = "C_inv C x != x"; break
    except Exception as e:
        bad["L%d_physical_to_real_modal" % k] = "raised %s" % repr(e)[:80]
_verdict(bool(bad), **{k_: bad[k_] for k_ in list(bad)[:8]})
'''


def main():
    chk = Check(PID)
    chk.default_replay = _replay_general
    snp.EXACT_SQRT[0] = True
    import hiten.algorithms.hamiltonian.wrappers as wr
    import hiten.algorithms.hamiltonian.transforms as tf
    from hiten.algorithms.types.services.hamiltonian import _SHARED_REGISTRY
    from hiten.system.hamiltonian import Hamiltonian
    import hiten.algorithms.polynomial.base as pb
    chk.bound(degree='polynomials of degree <= 3 with 9 symbolic complex-capable coefficients', matrices='complexification matrices exact in Q(sqrt 2, i); normal-form matrix = symbolic symplectic shear family (6 symbols) with closed-form inverse',
              points='collinear (sign +1, -1) and triangular stand-ins that are instances of the real point classes')
    chk.assume('zero-skip guards and cleaning thresholds on the generic side for symbolic coefficients', 'Lie edges are only required to execute here (what they compute is C08)')
    chk.out_of_scope('cleaning of sub-tolerance coefficients', 'degrees 4..8 (uniform code)', 'LAPACK inversion of the real normal-form matrix (contract C_inv C = I; decided for the actual matrix in C04)')
    pL1, pL2, pT, (Cf, Cfi), (gamma, mu, aa) = make_points()
    reg = dict(_SHARED_REGISTRY.conversion.items())
    chk.note('registry edges found: %s' % sorted('%s->%s' % k for k in reg))
    for (src, dst), (fn, ctx, defaults) in reg.items():
        chk.encode(fn)
    chk.encode(tf._M, tf._M_inv, tf._substitute_complex, tf._substitute_real, tf._solve_complex, tf._solve_real, tf._polylocal2realmodal, tf._polyrealmodal2local,
               tf._coordrealmodal2local, tf._coordlocal2realmodal, tf._local2synodic_collinear, tf._synodic2local_collinear, tf._local2synodic_triangular,
               tf._synodic2local_triangular, tf._restrict_poly_to_center_manifold)
    DEG = 3
    psi, clmo = pb._init_index_tables(DEG)
    enc = pb._create_encode_dict_from_clmo(clmo)
    ex = Explorer(generic_nonzero=True)
    X = [W.var('x%d' % i) + W.I() * W.var('xi%d' % i) for i in range(6)]

    def fresh_ham(name, tag):
        blocks, ref = R.make_sym_poly((psi, clmo, enc), P_SPEC, 'h_%s_' % tag, complex_coeffs=True)
        return Hamiltonian(blocks, DEG, 3, name=name), ref

    def matrix_of(src, dst, point):
        from hiten.system.libration.triangular import TriangularPoint
        mp = (0, 1, 2) if isinstance(point, TriangularPoint) else (1, 2)
        if (src, dst) == ('physical', 'real_modal'):
            return Cf
        if (src, dst) == ('real_modal', 'physical'):
            return Cfi
        if src.startswith('real') or src == 'center_manifold_real':
            return tf._M(mp)
        return tf._M_inv(mp)

    results = {}
    with explore.activate(ex):
        for (src, dst), (fn, ctx, defaults) in sorted(reg.items()):
            for pname, point in (('L1', pL1), ('L4', pT)):
                oid = 'C18/(1)runs/%s->%s/%s' % (src, dst, pname)
                ham, ref = fresh_ham(src, '%s%s%s' % (src[:2], dst[:2], pname))
                try:
                    out = fn(ham, point=point, **dict(defaults or {}))
                except Exception as e:   # noqa
                    chk.fail(oid, 'conversion raised %s: %s' % (type(e).__name__, str(e)[:120]), '''
from hiten.system import System
from hiten.algorithms.types.services.hamiltonian import _SHARED_REGISTRY
import hiten.algorithms.hamiltonian.wrappers
s = System.from_bodies("earth", "moon"); p = s.get_libration_point(1)
cm = p.get_center_manifold(degree=3); cm.compute()
src, dst = %r, %r
pipe = cm.dynamics.pipeline
try:
    ham = pipe.get_hamiltonian(src)
    fn, ctx, defaults = _SHARED_REGISTRY.conversion.get(src, dst)
    fn(ham, point=p, **dict(defaults or {}))
    _verdict(False, ran=True)
except Exception as e:
    _verdict(True, raised=type(e).__name__, message=str(e)[:160])
''' % (src, dst), None)
                    continue
                new = out[0] if isinstance(out, tuple) else out
                chk.ok(oid, 'executes on a symbolic degree-3 polynomial and returns form %r' % getattr(new, 'name', '?'), nontrivial=(pname == 'L1'))
                results[(src, dst, pname)] = (ham, ref, new)
                lie = 'normal' in dst and src == 'complex_modal'
                if lie:
                    continue
                got = R.from_blocks(new.poly_H, clmo)
                if dst == 'center_manifold_complex' and src == 'complex_partial_normal':
                    from hiten.system.libration.triangular import TriangularPoint
                    want = ref if isinstance(point, TriangularPoint) else {k: v for k, v in ref.items() if k[0] == 0 and k[3] == 0}
                    what = 'keeps exactly the monomials free of q1, p1 (all of them for a triangular point)'
                else:
                    L = matrix_of(src, dst, point)
                    want = R.psubs_linear(ref, [[Sym.lift(L[i][j]) for j in range(6)] for i in range(6)], None, DEG)
                    what = 'P_new(x) = P_old(L x) with L the matrix the code uses for this edge'
                ok, key = R.same_poly(got, want)
                oid2 = 'C18/(2)poly=coords/%s->%s/%s' % (src, dst, pname)
                if ok:
                    chk.ok(oid2, what + ' (%d coefficients)' % len(want), sample={'edge': '%s->%s' % (src, dst), 'coefficients': len(want)} if (src, pname) == ('real_modal', 'L1') else None)
                else:
                    chk.fail(oid2, 'coefficient of %s: got %r, want %r' % (key, got.get(key), want.get(key)), None)
        # (3) bidirectional edges compose to the identity on coefficients
        for (src, dst) in sorted(reg):
            if (dst, src) in reg and src < dst:
                for pname, point in (('L1', pL1), ('L4', pT)):
                    ham, ref = fresh_ham(src, 'rt%s%s%s' % (src[:3], dst[:3], pname))
                    f1, _, d1 = reg[(src, dst)]
                    f2, _, d2 = reg[(dst, src)]
                    try:
                        mid = f1(ham, point=point, **dict(d1 or {}))
                        back = f2(mid, point=point, **dict(d2 or {}))
                    except Exception as e:  # noqa
                        chk.fail('C18/(3)roundtrip/%s<->%s/%s' % (src, dst, pname), 'raised %s' % type(e).__name__, None)
                        continue
                    ok, key = R.same_poly(R.from_blocks(back.poly_H, clmo), ref)
                    (chk.ok if ok else (lambda o, d: chk.fail(o, d, None)))('C18/(3)roundtrip/%s<->%s/%s' % (src, dst, pname), 'forward then backward conversion returns the original coefficients')
        # (4) point maps
        for mp in ((1, 2), (0, 1, 2)):
            M, Mi = tf._M(mp), tf._M_inv(mp)
            prod = [[sum((Sym.lift(M[i][k]) * Sym.lift(Mi[k][j]) for k in range(6)), Sym.const(0)) for j in range(6)] for i in range(6)]
            ok = all(not normal(prod[i][j] - (1 if i == j else 0)).t for i in range(6) for j in range(6))
            (chk.ok if ok else (lambda o, d: chk.fail(o, d, None)))('C18/(4)M*M_inv=I/mix=%s' % (mp,), 'exact in Q(sqrt 2, i)')
            z = np.array(X)
            rt = tf._solve_real(tf._solve_complex(z, mix_pairs=mp), mix_pairs=mp)
            (chk.ok if same(rt, z) else (lambda o, d: chk.fail(o, d, None)))('C18/(4)solve_real o solve_complex = id/mix=%s' % (mp,), 'symbolic complex 6-vector')
            rt2 = tf._solve_complex(tf._solve_real(z, mix_pairs=mp), mix_pairs=mp)
            (chk.ok if same(rt2, z) else (lambda o, d: chk.fail(o, d, None)))('C18/(4)solve_complex o solve_real = id/mix=%s' % (mp,), 'symbolic complex 6-vector')
            # polynomial change agrees with the coordinate change in the same direction: P_c(z) = P_r(solve_real(z))
            blocks, ref = R.make_sym_poly((psi, clmo, enc), P_SPEC, 'g%d_' % len(mp), complex_coeffs=False)
            Pc = tf._substitute_complex(blocks, DEG, psi, clmo, mix_pairs=mp)
            lhs = R.peval(R.from_blocks(Pc, clmo), X)
            rhs = R.peval(ref, list(tf._solve_real(z, mix_pairs=mp)))
            (chk.ok if not normal(lhs - rhs).t else (lambda o, d: chk.fail(o, d, None)))('C18/(2)poly=coords/_substitute_complex vs _solve_real/mix=%s' % (mp,), 'P_complex(z) = P_real(solve_real(z)) at a symbolic point')
        c = np.array([W.var('c%d' % i) for i in range(6)])
        for name, point in (('collinear sign=+1', pL1), ('collinear sign=-1', pL2)):
            syn = tf._local2synodic_collinear(point, c)
            back = tf._synodic2local_collinear(point, syn)
            (chk.ok if same(back, c) else (lambda o, d: chk.fail(o, d, None)))('C18/(4)synodic2local o local2synodic = id/%s' % name, 'symbolic mu, gamma, offset a and coordinates')
            fwd = tf._local2synodic_collinear(point, tf._synodic2local_collinear(point, c))
            (chk.ok if same(fwd, c) else (lambda o, d: chk.fail(o, d, None)))('C18/(4)local2synodic o synodic2local = id/%s' % name, 'symbolic')
        for name, point, sg in (('triangular sign=+1 (L4)', pT, 1), ('triangular sign=-1 (L5)', _PT5, -1)):
            syn = tf._local2synodic_triangular(point, c)
            (chk.ok if same(tf._synodic2local_triangular(point, syn), c) else (lambda o, d: chk.fail(o, d, _replay_pointmaps())))('C18/(4)synodic2local o local2synodic = id/%s' % name, 'exact with sqrt(3)')
            fwd = tf._local2synodic_triangular(point, tf._synodic2local_triangular(point, c))
            (chk.ok if same(fwd, c) else (lambda o, d: chk.fail(o, d, _replay_pointmaps())))('C18/(4)local2synodic o synodic2local = id/%s' % name, 'exact with sqrt(3)')
            # independent anchor: the equilibrium (1/2 - mu, sign*sqrt(3)/2, 0; at rest) is the local origin, in both directions
            from engine.sym import sqrt as _ssqrt
            eq = np.array([Sym.const(1) / 2 - mu, sg * _ssqrt(Sym.const(3)) / 2, Sym.const(0), Sym.const(0), Sym.const(0), Sym.const(0)])
            zero = np.array([Sym.const(0)] * 6)
            (chk.ok if same(tf._synodic2local_triangular(point, eq), zero) and same(tf._local2synodic_triangular(point, zero), eq) else (lambda o, d: chk.fail(o, d, _replay_pointmaps())))(
                'C18/(4)equilibrium <-> local origin/%s' % name, 'synodic2local(L4/L5 at rest) = 0 and local2synodic(0) = L4/L5 at rest, symbolic mu')
        lm = tf._coordrealmodal2local(pL1, c)
        (chk.ok if same(tf._coordlocal2realmodal(pL1, lm), c) else (lambda o, d: chk.fail(o, d, None)))('C18/(4)coordlocal2realmodal o coordrealmodal2local = id', 'C_inv (C x) = x for the symbolic family')
        # polynomial change physical->real_modal agrees with coordinate change realmodal->local
        blocks, ref = R.make_sym_poly((psi, clmo, enc), P_SPEC, 'gl_', complex_coeffs=False)
        Pm = tf._polylocal2realmodal(pL1, blocks, DEG, psi, clmo)
        lhs = R.peval(R.from_blocks(Pm, clmo), list(c))
        rhs = R.peval(ref, list(tf._coordrealmodal2local(pL1, c)))
        (chk.ok if not normal(lhs - rhs).t else (lambda o, d: chk.fail(o, d, None)))('C18/(2)poly=coords/_polylocal2realmodal vs _coordrealmodal2local', 'P_modal(x) = P_local(C x) at a symbolic point')
    st = chk.absorb(ex)
    chk.note('%d generic zero-skip/cleaning decisions' % st['generic_nonzero_notes'])
    snp.EXACT_SQRT[0] = False
    return chk.finish()


if __name__ == '__main__':
    sys.exit(main())

"""C15 — synodic section detection: every crossing once, on the plane, in order."""
from __future__ import annotations

import os
import sys
from fractions import Fraction

from harness.common import *  # noqa: F401,F403
from harness.common import aidx, normal, is_zero_syntactic, np, Explorer, Check, Sym, W, prove_zero, model_to_env, fmt_env, rng, explore, And, Or, Not, Implies, validate

PID = 'C15'

NORMALS = {
    'x-axis': [1, 0, 0, 0, 0, 0],
    'oblique': [1, Fraction(1, 2), 0, 0, -2, 0],
}


def hermite(chk):
    import hiten.algorithms.poincare.utils as pu
    chk.encode(pu._hermite_scalar, pu._hermite_der)
    s, y0, y1, d0, d1, dt = W.vars('s y0 y1 dy0 dy1 dt')
    ex = Explorer()
    H = pu._hermite_scalar(s, y0, y1, d0, d1, dt)
    dH = pu._hermite_der(s, y0, y1, d0, d1, dt)
    v, m, info = prove_zero(ex, Sym.lift(dH) - Sym.lift(H).diff(s))
    oid = 'C15/(4)hermite/_hermite_der = d/ds _hermite_scalar'
    if v == 'unsat':
        chk.ok(oid, info.get('by', ''), sample={'d/ds H': repr(Sym.lift(H).diff(s))[:200]})
    elif v == 'sat':
        env = model_to_env(m)
        chk.fail(oid, 'derivative routine differs from the derivative of the interpolant by %s, e.g. at %s' % (repr(normal(Sym.lift(dH) - Sym.lift(H).diff(s)))[:160], fmt_env(env)), '''
from hiten.algorithms.poincare.utils import _hermite_scalar, _hermite_der
a = %r
h = 1e-6
fd = (_hermite_scalar(a[0] + h, *a[1:]) - _hermite_scalar(a[0] - h, *a[1:])) / (2*h)
an = _hermite_der(*a)
_verdict(abs(fd - an) > 1e-6 * max(1.0, abs(fd)), analytic=float(an), finite_difference=float(fd))
''' % ([float(env[k]) for k in 's y0 y1 dy0 dy1 dt'.split()],), env)
    else:
        chk.unknown(oid, v)
    for name, sv, want in (('H(0)=y0', 0, y0), ('H(1)=y1', 1, y1)):
        r = Sym.lift(pu._hermite_scalar(Sym.const(sv), y0, y1, d0, d1, dt)) - want
        v, m, info = prove_zero(ex, r)
        (chk.ok if v == 'unsat' else (lambda o, d: chk.fail(o, d, None)))('C15/(4)hermite/' + name, info.get('by', ''))
    for name, sv, want in (("H'(0)=dy0*dt", 0, d0 * dt), ("H'(1)=dy1*dt", 1, d1 * dt)):
        r = Sym.lift(H).diff(s).subs({aidx(s): sv}) - want
        v, m, info = prove_zero(ex, r)
        (chk.ok if v == 'unsat' else (lambda o, d: chk.fail(o, d, None)))('C15/(4)hermite/' + name, info.get('by', ''))
    chk.absorb(ex)


def spec_change(g0, g1, direction):
    if direction is None:
        return And(g0 * g1 <= 0, (g0 - g1) != 0)
    if direction == 1:
        return And(g0 < 0, g1 >= 0)
    return And(g0 > 0, g1 <= 0)


def linear_detection(chk, N, direction, normal_name, budget, vectorised):
    import hiten.algorithms.poincare.synodic.backend as SB
    nrm = NORMALS[normal_name]
    T = [W.var('t%d' % k) for k in range(N)]
    X = [[W.var('x%d_%d' % (k, j)) for j in range(6)] for k in range(N)]
    off = Sym.const(Fraction(1, 4)) if vectorised else W.var('c')
    tol, dtt, dpt = W.vars('tol_on_surface dedup_time_tol dedup_point_tol')
    tag = 'N=%d/dir=%s/%s/%s' % (N, direction, normal_name, 'vectorised' if vectorised else 'generic-event')
    ex = Explorer(max_paths=20000, time_budget_s=budget, max_decisions=400)
    with explore.activate(ex):
        for k in range(N - 1):
            ex.assume(T[k] < T[k + 1])
        ex.assume(tol > 0)
        ex.assume(dtt >= 0)
        ex.assume(dpt >= 0)
    G = [sum((Sym.lift(nrm[j]) * X[k][j] for j in range(6)), Sym.const(0)) - off for k in range(N)]
    rec = {}
    saved = (SB._on_surface_indices, SB._crossing_indices_and_alpha)

    def w_on(*a, **k):
        r = saved[0](*a, **k)
        rec['on'] = [int(i) for i in r]
        return r

    def w_cr(*a, **k):
        r = saved[1](*a, **k)
        rec['cr'] = [int(i) for i in r[0]]
        rec['alpha'] = list(r[1])
        return r
    SB._on_surface_indices, SB._crossing_indices_and_alpha = w_on, w_cr
    be = SB._SynodicDetectionBackend()
    times = np.array(T)
    states = np.array(X)
    offset_arg = 0.25 if vectorised else off

    def go():
        rec.clear()
        hits = be.detect_on_trajectory(times, states, normal=np.array([float(x) for x in nrm]), offset=offset_arg, plane_coords=('y', 'vy'),
                                       interp_kind='linear', segment_refine=0, tol_on_surface=tol, dedup_time_tol=dtt, dedup_point_tol=dpt,
                                       max_hits_per_traj=None, direction=direction)
        return hits, dict(rec)
    try:
        paths = ex.run(go)
    finally:
        SB._on_surface_indices, SB._crossing_indices_and_alpha = saved
    nhits = 0
    for n, p in enumerate(paths):
        base = 'C15/linear/%s/path %d' % (tag, n)
        if p.exc is not None:
            if isinstance(p.exc, explore.PathAbort):
                continue
            chk.fail(base, 'raised %r' % (p.exc,), None)
            continue
        hits, r = p.value
        on, cr, alpha = r.get('on', []), r.get('cr', []), r.get('alpha', [])
        _a = explore.activate(ex)
        _a.__enter__()
        try:
            goals = []
            # (1) detected sets equal the specification
            for k in range(N - 1):
                onk = abs(G[k]) < tol
                if direction is None:
                    filt = True
                elif direction == 1:
                    filt = Or(G[k + 1] >= 0, (G[k - 1] <= 0) if k >= 1 else False)
                else:
                    filt = Or(G[k + 1] <= 0, (G[k - 1] >= 0) if k >= 1 else False)
                want_on = And(onk, filt)
                want_cr = And(spec_change(G[k], G[k + 1], direction), Not(onk))
                goals.append(want_on if k in on else Not(want_on))
                goals.append(want_cr if k in cr else Not(want_cr))
            # candidates in the order the code builds them, then sorted by segment (stable)
            cands = [('on', k, T[k], X[k], None) for k in on] + [('cr', k, None, None, alpha[i]) for i, k in enumerate(cr)]
            order = sorted(range(len(cands)), key=lambda i: cands[i][1])
            cands = [cands[i] for i in order]
            # (2) crossing hits: alpha in [0,1], t and x interpolated with the same alpha, on the plane, inside the bracket
            exp = []
            for kind, k, t_, x_, a in cands:
                if kind == 'on':
                    exp.append((t_, x_))
                    continue
                a = Sym.lift(a)
                goals.append(a >= 0)
                goals.append(a <= 1)
                th = (1 - a) * T[k] + a * T[k + 1]
                xh = [X[k][j] + a * (X[k + 1][j] - X[k][j]) for j in range(6)]
                gh = sum((Sym.lift(nrm[j]) * xh[j] for j in range(6)), Sym.const(0)) - off
                goals.append(gh == 0)
                goals.append(th >= T[k])
                goals.append(th <= T[k + 1])
                exp.append((th, xh))
            # separation assumption: distinct candidates further apart than the dedup tolerances
            sep = []
            for i in range(len(exp) - 1):
                t_a, x_a = exp[i]
                t_b, x_b = exp[i + 1]
                sep.append(abs(t_b - t_a) > dtt)
                sep.append((x_b[1] - x_a[1]) ** 2 + (x_b[4] - x_a[4]) ** 2 > dpt * dpt)
            structural = None
            if len(hits) > len(exp):
                structural = 'more hits (%d) than candidates (%d)' % (len(hits), len(exp))
            # reported hits are candidates, in order; (3) non-decreasing time
            for i in range(len(hits) - 1):
                goals.append(Sym.lift(hits[i].time) <= hits[i + 1].time)
            same_all = len(hits) == len(exp) and all(
                _same(h.time, e[0]) and all(_same(h.state[j], e[1][j]) for j in range(6)) and _same(h.point2d[0], e[1][1]) and _same(h.point2d[1], e[1][4])
                for h, e in zip(hits, exp))
        finally:
            _a.__exit__()
        nhits += len(hits)
        if structural:
            chk.fail(base, structural, None)
            continue
        v, m, kk = ex.prove_all(p, goals)
        if v == 'sat':
            env = model_to_env(m)
            chk.fail(base + '/sets,brackets,plane,order', 'detection contract goal %d fails (on=%s cr=%s) at %s' % (kk, on, cr, fmt_env(env)),
                     _replay_linear(env, N, direction, nrm, vectorised), env)
            continue
        if v != 'unsat':
            chk.unknown(base, v)
            continue
        # (1) nothing lost in dedup when candidates are separated
        if same_all:
            chk.ok(base, 'on=%s cr=%s: sets = spec, alpha in [0,1], hits on the plane, inside their brackets, time-ordered; all %d candidates reported' % (on, cr, len(exp)),
                   sample={'on': on, 'cr': cr, 'hits': len(hits)} if (len(cr) >= 1 and n < 60) else None)
        else:
            # some candidate was dropped or altered: only allowed if the separation assumption fails on this path
            v2, m2 = ex.prove(p, False, extra_assume=sep) if sep else ('sat', None)
            if v2 == 'unsat':
                chk.ok(base, 'on=%s cr=%s: %d of %d candidates reported; the dropped ones are within the dedup tolerances (separation assumption infeasible on this path)' % (on, cr, len(hits), len(exp)))
            elif v2 == 'sat':
                env = model_to_env(m2)
                chk.fail(base + '/count', 'a hit is lost or altered although candidates are separated by more than the dedup tolerances (on=%s cr=%s, %d of %d reported) at %s' % (
                    on, cr, len(hits), len(exp), fmt_env(env)), _replay_linear(env, N, direction, nrm, vectorised), env)
            else:
                chk.unknown(base + '/count', v2)
    st = chk.absorb(ex)
    chk.note('linear %s: %d paths, %d queries, %d hits checked' % (tag, st['paths'], st['queries'], nhits))


def segment_refine_detection(chk, N, r, direction, normal_name, budget):
    """The dense path (segment_refine = r > 0, linear interpolation): every segment is cut into r+1 sub-intervals.  The set of
    candidates the code produces on a path is compared with the specification *decided on that path*: every specification
    condition (on-surface sample accepted; sub-interval (k, m) holds a compatible sign change) must be implied true or implied
    false by the path condition, and the hits reported must be exactly the candidates implied true, with the stated geometry."""
    import hiten.algorithms.poincare.synodic.backend as SB
    nrm = NORMALS[normal_name]
    T = [W.var('t%d' % k) for k in range(N)]
    X = [[W.var('x%d_%d' % (k, j)) for j in range(6)] for k in range(N)]
    off = Sym.const(Fraction(1, 4))
    tol, dtt, dpt = W.vars('tol_on_surface dedup_time_tol dedup_point_tol')
    tag = 'refine=%d/N=%d/dir=%s/%s' % (r, N, direction, normal_name)
    ex = Explorer(max_paths=20000, time_budget_s=budget, max_decisions=400)
    with explore.activate(ex):
        for k in range(N - 1):
            ex.assume(T[k] < T[k + 1])
        ex.assume(tol > 0)
        ex.assume(dtt >= 0)
        ex.assume(dpt >= 0)
    G = [sum((Sym.lift(nrm[j]) * X[k][j] for j in range(6)), Sym.const(0)) - off for k in range(N)]
    be = SB._SynodicDetectionBackend()
    times, states = np.array(T), np.array(X)

    def go():
        return be.detect_on_trajectory(times, states, normal=np.array([float(x) for x in nrm]), offset=0.25, plane_coords=('y', 'vy'), interp_kind='linear', segment_refine=r,
                                       tol_on_surface=tol, dedup_time_tol=dtt, dedup_point_tol=dpt, max_hits_per_traj=None, direction=direction)
    paths = ex.run(go)
    nhits, nfail = 0, 0
    step = Fraction(1, r + 1)
    fstep = 1.0 / (r + 1)
    for n, p in enumerate(paths):
        base = 'C15/refine/%s/path %d' % (tag, n)
        if p.exc is not None:
            if isinstance(p.exc, explore.PathAbort):
                continue
            chk.fail(base, 'raised %r' % (p.exc,), None)
            continue
        hits = p.value
        with explore.activate(ex):
            conds = []          # (kind, k, m, condition, (time, state) if taken)
            for k in range(N - 1):
                onk = abs(G[k]) < tol
                if direction is None:
                    filt = True
                elif direction == 1:
                    filt = Or(G[k + 1] >= 0, (G[k - 1] <= 0) if k >= 1 else False)
                else:
                    filt = Or(G[k + 1] <= 0, (G[k - 1] >= 0) if k >= 1 else False)
                acc = And(onk, filt)
                conds.append(('on', k, None, acc, (T[k], X[k])))
                for m in range(r + 1):
                    # the sub-interval ends and the weights (1 - s) are formed in float64 exactly as the code forms them (1/3 is not a
                    # double: with exact thirds the specification would differ from the code by an ulp-sized linear form)
                    s_lo, s_hi = m * fstep, (m + 1) * fstep
                    g_lo = (1.0 - s_lo) * G[k] + s_lo * G[k + 1]
                    g_hi = (1.0 - s_hi) * G[k] + s_hi * G[k + 1]
                    c = spec_change(g_lo, g_hi, direction)
                    if m == 0:
                        c = And(c, Not(acc))
                    # secant point of the sub-interval (exact root of the linear interpolant)
                    dg = g_lo - g_hi
                    a = g_lo / dg if not is_zero_syntactic(dg) else Sym.const(0)
                    ss = s_lo + a * (s_hi - s_lo)
                    th = (1 - ss) * T[k] + ss * T[k + 1]
                    xh = [X[k][j] + ss * (X[k + 1][j] - X[k][j]) for j in range(6)]
                    conds.append(('cr', k, m, c, (th, xh), (ss, s_lo, s_hi)))
        undecided, exp, geom = None, [], []
        for cnd in conds:
            kind, k, m, c = cnd[:4]
            v_true, _ = ex.prove(p, c)
            if v_true == 'unsat':
                taken = True
            else:
                v_false, _ = ex.prove(p, Not(c) if not isinstance(c, bool) else (not c))
                if v_false == 'unsat':
                    taken = False
                elif 'unknown' in (v_true, v_false):
                    undecided = (kind, k, m, 'unknown', 'unknown')
                    break
                else:
                    undecided = (kind, k, m, v_true, v_false)
                    break
            if taken:
                exp.append(cnd[4])
                if kind == 'cr':
                    ss, s_lo, s_hi = cnd[5]
                    with explore.activate(ex):
                        th, xh = cnd[4]
                        gh = sum((Sym.lift(nrm[j]) * xh[j] for j in range(6)), Sym.const(0)) - off
                        geom += [ss >= s_lo, ss <= s_hi, gh == 0, th >= T[k], th <= T[k + 1]]
        oid = 'C15/refine/%s' % tag
        if undecided is not None and undecided[3] == 'unknown':
            chk.unknown(base, 'solver unknown on a specification condition')
            continue
        if undecided is not None:
            nfail += 1
            if nfail == 1:
                chk.fail(oid, 'on path %d the code does not decide the specification condition %s of segment %d%s (it reports %d hits)' % (
                    n, 'on-surface sample accepted' if undecided[0] == 'on' else 'compatible sign change in sub-interval', undecided[1], '' if undecided[2] is None else ', sub-interval %d' % undecided[2], len(hits)),
                    _replay_refine(r, direction, nrm), None)
            continue
        with explore.activate(ex):
            sep = []
            for i in range(len(exp) - 1):
                (t_a, x_a), (t_b, x_b) = exp[i], exp[i + 1]
                sep.append(abs(t_b - t_a) > dtt)
                sep.append((x_b[1] - x_a[1]) ** 2 + (x_b[4] - x_a[4]) ** 2 > dpt * dpt)
            order_goals = [Sym.lift(hits[i].time) <= hits[i + 1].time for i in range(len(hits) - 1)]
            same_all = len(hits) == len(exp) and all(_same(h.time, e[0]) and all(_same(h.state[j], e[1][j]) for j in range(6)) for h, e in zip(hits, exp))
            if not same_all and len(hits) == len(exp):
                # same count but syntactically different (clipped secant parameter, ...): equal under the path condition?
                eqs = []
                for h, e in zip(hits, exp):
                    eqs.append(Sym.lift(h.time) - e[0] == 0)
                    eqs += [Sym.lift(h.state[j]) - e[1][j] == 0 for j in range(6)]
                eqs = [q for q in eqs if q is not True]
                if not any(q is False for q in eqs):
                    v_eq, _, _ = ex.prove_all(p, eqs) if eqs else ('unsat', None, None)
                    same_all = v_eq == 'unsat'
        nhits += len(hits)
        if os.environ.get('C15_DEBUG') and not same_all and len(hits) == len(exp):
            for h, e in zip(hits, exp):
                print('PATH', n, 'hit t', h.time, '| exp t', e[0], '| same', _same(h.time, e[0]), [(_same(h.state[j], e[1][j])) for j in range(6)])
        v, m_, kk = ex.prove_all(p, geom + order_goals) if (geom or order_goals) else ('unsat', None, None)
        bad = None
        if v == 'sat':
            bad = ('a refined hit leaves its sub-interval / the plane / its bracket, or hits are out of time order (goal %d)' % kk, model_to_env(m_))
        elif v != 'unsat':
            chk.unknown(base, v)
            continue
        elif not same_all:
            if len(hits) > len(exp):
                bad = ('%d hits reported but only %d compatible candidates exist' % (len(hits), len(exp)), None)
            else:
                v2, m2 = ex.prove(p, False, extra_assume=sep) if sep else ('sat', None)
                if v2 == 'sat':
                    bad = ('the reported hits (%d) are not the compatible candidates (%d) although these are separated by more than the dedup tolerances' % (len(hits), len(exp)), model_to_env(m2) if m2 is not None else None)
                elif v2 != 'unsat':
                    chk.unknown(base, v2)
                    continue
        if bad is None:
            chk.ok(base, '%d hits = the %d candidates the specification selects on this path (on-surface samples with the direction filter, one per sub-interval with a compatible sign change), each inside its sub-interval, on the plane, time-ordered' % (len(hits), len(exp)),
                   sample={'hits': len(hits)} if (len(hits) >= 2 and n < 80) else None)
        else:
            nfail += 1
            if nfail == 1:
                chk.fail(oid, '%s [path %d]%s' % (bad[0], n, (' at ' + fmt_env(bad[1])) if bad[1] else ''), _replay_refine(r, direction, nrm), bad[1])
    st = chk.absorb(ex)
    chk.note('refine %s: %d paths, %d hits checked%s' % (tag, st['paths'], nhits, ', %d paths violate the contract' % nfail if nfail else ''))


def _replay_refine(r, direction, nrm):
    """Compiled build: a piecewise-linear curve whose samples hit the plane exactly at known times, all crossing senses."""
    return '''
from hiten.algorithms.poincare.synodic.backend import _SynodicDetectionBackend
R, DIRECTION, NRM = %r, %r, %r
be = _SynodicDetectionBackend()
nrm = np.array(NRM, dtype=float); j = int(np.argmax(np.abs(nrm)))
bad = {}
# g along the samples: values chosen so that some samples lie exactly on the plane g = 0, crossed upward, downward, or only touched
for name, gs in (("up_down_up_on_samples", [-1.0, 0.0, 1.0, 0.0, -1.0, 0.0, 1.0]), ("between_samples", [-1.0, 1.0, -1.0, 1.0]), ("touch_from_above", [1.0, 0.0, 1.0, 2.0]), ("touch_from_below", [-1.0, 0.0, -1.0, -2.0]), ("mixed", [-0.5, 0.75, 0.0, -0.25, 0.0, 0.5])):
    n = len(gs); times = np.arange(n, dtype=float)
    states = np.zeros((n, 6)); states[:, j] = (np.array(gs) + 0.25) / nrm[j]
    states[:, 1] += 0.01 * times; states[:, 4] += 0.02 * times      # keep projected points apart
    want = []
    for k in range(n - 1):
        g0, g1 = gs[k], gs[k + 1]
        if g0 == 0.0:
            prev = gs[k - 1] if k >= 1 else None
            ok = DIRECTION is None or (DIRECTION == 1 and (g1 >= 0 or (prev is not None and prev <= 0))) or (DIRECTION == -1 and (g1 <= 0 or (prev is not None and prev >= 0)))
            if ok: want.append(float(k))
            continue
        if g0 * g1 < 0 or g1 == 0.0:
            up = g0 < 0
            if g1 == 0.0: continue        # reported as the on-surface sample of the next segment (if compatible)
            if DIRECTION is None or (DIRECTION == 1) == up: want.append(k + g0 / (g0 - g1))
    hits = be.detect_on_trajectory(times, states, normal=nrm, offset=0.25, plane_coords=("y", "vy"), interp_kind="linear", segment_refine=R, tol_on_surface=1e-12,
                                   dedup_time_tol=1e-9, dedup_point_tol=1e-12, max_hits_per_traj=None, direction=DIRECTION)
    got = [float(h.time) for h in hits]
    if len(got) != len(want) or any(abs(a - b) > 1e-9 for a, b in zip(got, want)):
        bad[name] = "hit times %%s, expected %%s" %% (np.round(got, 6).tolist(), np.round(want, 6).tolist())
_verdict(bool(bad), **bad)
''' % (r, direction, [float(x) for x in nrm])


def _replay_general():
    """General confirmation on the compiled build: piecewise-linear curves with known crossings (on samples, between samples, touching),
    every direction, segment_refine in {0, 1, 3}, linear (exact times) and cubic (count and bracketing segment) interpolation."""
    return '''
from hiten.algorithms.poincare.synodic.backend import _SynodicDetectionBackend
be = _SynodicDetectionBackend()
bad = {}
for NRM in ([1.0, 0.0, 0.0, 0.0, 0.0, 0.0], [1.0, 0.5, 0.0, 0.0, -2.0, 0.0]):
    nrm = np.array(NRM); j = 0
    for DIRECTION in (1, -1, None):
        for R in (0, 1, 3):
            for kind in ("linear", "cubic"):
                for name, gs in (("on_samples", [-1.0, 0.0, 1.0, 0.0, -1.0, 0.0, 1.0]), ("between", [-1.0, 1.0, -1.0, 1.0, 2.0]), ("touch_above", [1.0, 0.0, 1.0, 2.0]), ("touch_below", [-1.0, 0.0, -1.0, -2.0]), ("mixed", [-0.5, 0.75, 0.0, -0.25, 0.0, 0.5])):
                    n = len(gs); times = np.arange(n, dtype=float)
                    states = np.zeros((n, 6)); states[:, 1] = 0.01 * times; states[:, 4] = 0.02 * times
                    states[:, 0] = (np.array(gs) + 0.25 - states[:, 1:] @ nrm[1:]) / nrm[0]
                    want = []
                    for k in range(n - 1):
                        g0, g1 = gs[k], gs[k + 1]
                        if g0 == 0.0:
                            prev = gs[k - 1] if k >= 1 else None
                            if DIRECTION is None or (DIRECTION == 1 and (g1 >= 0 or (prev is not None and prev <= 0))) or (DIRECTION == -1 and (g1 <= 0 or (prev is not None and prev >= 0))): want.append(float(k))
                        elif g0 * g1 < 0 and (DIRECTION is None or (DIRECTION == 1) == (g0 < 0)): want.append(k + g0 / (g0 - g1))
                    hits = be.detect_on_trajectory(times, states, normal=nrm, offset=0.25, plane_coords=("y", "vy"), interp_kind=kind, segment_refine=R, tol_on_surface=1e-12,
                                                   dedup_time_tol=1e-9, dedup_point_tol=1e-12, max_hits_per_traj=None, direction=DIRECTION)
                    got = [float(h.time) for h in hits]
                    tag = "%s_dir%s_refine%d_%s_%s" % ("axis" if NRM[1] == 0 else "oblique", DIRECTION, R, kind, name)
                    if kind == "cubic" and name not in ("on_samples", "between"): continue     # a cubic through touching, non-smooth data legitimately overshoots
                    if kind == "linear" or name == "on_samples":
                        if len(got) != len(want) or any(abs(a - b) > 1e-9 for a, b in zip(got, want)): bad[tag] = "hit times %s, expected %s" % (np.round(got, 6).tolist(), np.round(want, 6).tolist())
                    else:
                        if len(got) != len(want) or any(not (np.floor(b) - 1e-9 <= a <= np.floor(b) + 1 + 1e-9) for a, b in zip(got, want)) or got != sorted(got): bad[tag] = "hit times %s, expected one per bracket of %s" % (np.round(got, 6).tolist(), np.round(want, 6).tolist())
# smooth curve on a NON-UNIFORM grid, cubic interpolation: the hit must lie on the plane and on the curve to interpolation accuracy
rs = np.random.default_rng(15)
for NRM in ([1.0, 0.0, 0.0, 0.0, 0.0, 0.0], [1.0, 0.5, 0.0, 0.0, -2.0, 0.0]):
    nrm = np.array(NRM)
    for R in (0, 1):
        t = np.cumsum(np.concatenate([[0.0], 0.04 + 0.04 * rs.random(160)]))
        curve = lambda tt: np.stack([np.sin(tt) + 0.3, 0.4 * np.cos(1.3 * tt), 0.1 * tt, 0.2 * np.sin(0.7 * tt + 1.0), 0.05 * np.cos(tt), 0.3 * np.sin(0.5 * tt)], axis=-1)
        X = curve(t); off = 0.25
        hits = be.detect_on_trajectory(t, X, normal=nrm, offset=off, plane_coords=("y", "vy"), interp_kind="cubic", segment_refine=R, tol_on_surface=1e-12, dedup_time_tol=1e-9, dedup_point_tol=1e-12, max_hits_per_traj=None, direction=None)
        tag = "smooth_nonuniform_cubic_%s_refine%d" % ("axis" if NRM[1] == 0 else "oblique", R)
        if not hits: bad[tag] = "no hits"; continue
        worst_plane = max(abs(float(np.dot(nrm, np.asarray(h.state, dtype=float)) - off)) for h in hits)
        worst_curve = max(float(np.max(np.abs(np.asarray(h.state, dtype=float) - curve(np.array(float(h.time)))))) for h in hits)
        if worst_plane > 3e-4 or worst_curve > 3e-4: bad[tag] = "hit states are %.2e off the plane and %.2e off the curve (grid spacing 0.04..0.08)" % (worst_plane, worst_curve)
_verdict(bool(bad), **{k: bad[k] for k in list(bad)[:6]})
'''


def _same(a, b):
    from engine.sym import is_zero_syntactic
    return is_zero_syntactic(Sym.lift(a) - Sym.lift(b))


def _replay_linear(env, N, direction, nrm, vectorised):
    g = lambda k, d=0.0: float(env.get(k, d))
    times = [g('t%d' % k) for k in range(N)]
    states = [[g('x%d_%d' % (k, j)) for j in range(6)] for k in range(N)]
    c = 0.25 if vectorised else g('c')
    return '''
from hiten.algorithms.poincare.synodic.backend import _SynodicDetectionBackend
times = np.array(%r); states = np.array(%r); n = np.array(%r, dtype=float); c = %r
tol, dtt, dpt, direction = %r, %r, %r, %r
hits = _SynodicDetectionBackend().detect_on_trajectory(times, states, normal=n, offset=c, plane_coords=('y', 'vy'), interp_kind='linear',
    segment_refine=0, tol_on_surface=tol, dedup_time_tol=dtt, dedup_point_tol=dpt, direction=direction)
gv = states @ n - c
exp = []
for k in range(len(times) - 1):
    g0, g1 = gv[k], gv[k + 1]
    on = abs(g0) < tol
    if direction is None: filt = True; ch = g0 * g1 <= 0 and g0 != g1
    elif direction == 1: filt = g1 >= 0 or (k >= 1 and gv[k - 1] <= 0); ch = g0 < 0 and g1 >= 0
    else: filt = g1 <= 0 or (k >= 1 and gv[k - 1] >= 0); ch = g0 > 0 and g1 <= 0
    if on and filt: exp.append((times[k], states[k]))
    if ch and not on:
        a = g0 / (g0 - g1); exp.append(((1 - a) * times[k] + a * times[k + 1], states[k] + a * (states[k + 1] - states[k])))
kept = []
for t, x in exp:
    if kept and (abs(t - kept[-1][0]) <= dtt or (x[1] - kept[-1][1][1])**2 + (x[4] - kept[-1][1][4])**2 <= dpt*dpt): continue
    kept.append((t, x))
bad = len(hits) != len(kept) or any(abs(h.time - t) > 1e-12 or np.max(np.abs(h.state - x)) > 1e-12 for h, (t, x) in zip(hits, kept))
bad = bad or any(abs(h.state @ n - c) > 1e-9 and not any(abs(h.time - tt) < 1e-15 for tt in times) for h in hits)
bad = bad or any(hits[i].time > hits[i + 1].time for i in range(len(hits) - 1))
_verdict(bool(bad), reported=[float(h.time) for h in hits], expected=[float(t) for t, _ in kept])
''' % (times, states, [float(x) for x in nrm], c, g('tol_on_surface', 1e-12), g('dedup_time_tol'), g('dedup_point_tol'), direction)


def cubic_refine(chk, direction, budget, max_iter):
    """(5) cubic refinement: the Newton iterate is clamped to its bracket, so the hit time lies inside the sample
    interval; the reported state is the cubic Hermite interpolant through the samples (centred slopes) -- or the linear
    one at the trajectory ends -- evaluated at the same parameter as the time.  The scalar Hermite helpers are
    uninterpreted here (their own identities are obligation group (4))."""
    import hiten.algorithms.poincare.synodic.backend as SB
    from harness.common import opaque
    N = 4
    T = [W.var('t%d' % k) for k in range(N)]
    Gs = [W.var('g%d' % k) for k in range(N)]
    X = [[W.var('x%d_%d' % (k, j)) for j in range(2)] for k in range(N)]
    a_lin = W.var('alpha_lin')
    tag = 'cubic/newton<=%d' % max_iter
    times, states, g_all = np.array(T), np.array(X), np.array(Gs)
    saved = (SB._hermite_scalar, SB._hermite_der)
    SB._hermite_scalar = lambda *a: opaque('Hs', *a)
    SB._hermite_der = lambda *a: opaque('Hd', *a)
    npaths = 0
    try:
        for kseg in (0, 1, 2):
            ex = Explorer(max_paths=4000, time_budget_s=budget, max_decisions=200)
            with explore.activate(ex):
                for k in range(N - 1):
                    ex.assume(T[k] < T[k + 1])
                ex.assume(a_lin >= 0)
                ex.assume(a_lin <= 1)

            def go():
                return SB._refine_hits_cubic(times, states, g_all, np.array([kseg]), np.array([a_lin]), max_iter=max_iter)
            paths = ex.run(go)
            for n, p in enumerate(paths):
                base = 'C15/(5)%s/segment %d/path %d' % (tag, kseg, n)
                if p.exc is not None:
                    if isinstance(p.exc, explore.PathAbort):
                        continue
                    chk.fail(base, 'raised %r' % (p.exc,), None)
                    continue
                th, xh = p.value
                _a = explore.activate(ex)
                _a.__enter__()
                try:
                    th0 = Sym.lift(th[0])
                    dt = T[kseg + 1] - T[kseg]
                    s = (th0 - T[kseg]) / dt
                    goals = [th0 >= T[kseg], th0 <= T[kseg + 1]]
                    for j in range(2):
                        if 1 <= kseg and kseg + 2 < N:
                            d0 = (X[kseg + 1][j] - X[kseg - 1][j]) / (T[kseg + 1] - T[kseg - 1])
                            d1 = (X[kseg + 2][j] - X[kseg][j]) / (T[kseg + 2] - T[kseg])
                            ref = (1 + 2 * s) * (1 - s) ** 2 * X[kseg][j] + s * (1 - s) ** 2 * d0 * dt + s ** 2 * (3 - 2 * s) * X[kseg + 1][j] + s ** 2 * (s - 1) * d1 * dt
                        else:
                            ref = X[kseg][j] + s * (X[kseg + 1][j] - X[kseg][j])
                        goals.append((Sym.lift(xh[0][j]) - ref) == 0)
                finally:
                    _a.__exit__()
                v, m, kk = ex.prove_all(p, goals)
                if v == 'unsat':
                    chk.ok(base, 'refined time inside [t_k, t_k+1]; state = cubic Hermite (centred slopes) / linear interpolant at the parameter of the reported time')
                elif v == 'sat':
                    env = model_to_env(m)
                    chk.fail(base, 'cubic refinement leaves its bracket or time/state parameters disagree (goal %d) at %s' % (kk, fmt_env(env)), None, env)
                else:
                    chk.unknown(base, v)
            st = chk.absorb(ex)
            npaths += st['paths']
    finally:
        SB._hermite_scalar, SB._hermite_der = saved
    chk.note('%s: %d paths' % (tag, npaths))


def main():
    chk = Check(PID)
    chk.default_replay = _replay_general
    import hiten.algorithms.poincare.synodic.backend as SB
    thorough = chk.tier == 'thorough'
    chk.encode(SB._SynodicDetectionBackend.detect_on_trajectory, SB._on_surface_indices, SB._crossing_indices_and_alpha, SB._refine_hits_linear,
               SB._refine_hits_cubic, SB._order_and_dedup_hits, SB._detect_with_segment_refine, SB._compute_event_values, SB._is_vectorizable_plane_event)
    chk.bound(samples='N = 3 (quick), N = 4 for the one-sided directions (thorough): 2 resp. 3 bracketing intervals', state_dim=6, directions='{None, +1, -1}',
              normals='two concrete normals (axis, oblique) with symbolic offset (generic event path) and a concrete offset (vectorised path)',
              cubic='N = 4, newton_max_iter <= %d, one refined crossing per call' % (2 if thorough else 1), segment_refine='0, and 1 with N = 3 on the linear dense path (also 3, and an oblique normal, in the thorough tier; only dyadic sub-interval lengths, see the comment in main)')
    chk.assume('strictly increasing sample times', 'tol_on_surface > 0, dedup tolerances >= 0 (symbolic)',
               'counting obligation: candidates separated by more than the dedup tolerances (otherwise dropping is the documented behaviour)',
               'the on-surface acceptance rule (next >= 0 or previous <= 0 for direction +1) is taken from the code comments as the specification of "samples lying on the surface"')
    chk.out_of_scope('convergence order of the hit error under grid refinement (analysis on top of the decided bracket/on-plane/derivative facts)',
                     'the cubic variant of the segment_refine > 0 driver beyond the shared Hermite helpers', 'symbolic plane normals')
    hermite(chk)
    for direction in (None, 1, -1):
        linear_detection(chk, 3, direction, 'x-axis', 500, vectorised=False)
    linear_detection(chk, 3, 1, 'oblique', 500, vectorised=True)
    if thorough:
        linear_detection(chk, 3, None, 'oblique', 1500, vectorised=False)
        for direction in (1, -1):      # direction None at N = 4: six quadratic feasibility queries stay `unknown` in z3 (every obligation it reached was discharged, but the exploration is not provably complete): not claimed
            linear_detection(chk, 4, direction, 'x-axis', 3000, vectorised=False)
    cubic_refine(chk, None, 400, 2 if thorough else 1)
    for direction in (None, 1, -1):
        segment_refine_detection(chk, 3, 1, direction, 'x-axis', 600)
    if thorough:
        # refinement counts with a dyadic sub-interval length only (1, 3): for r = 2 the code's float weights 1/3, 1 - 1/3 do not sum to
        # one exactly, so "the hit lies on the plane" holds only up to an ulp -- rounding is outside the claim, and r = 2 is not claimed
        for direction in (1, -1):      # direction None at r = 3 leaves a few quadratic sign conditions `unknown` in z3: not claimed
            segment_refine_detection(chk, 3, 3, direction, 'x-axis', 2400)
        # (N = 4 on the dense path was tried: 174 nonlinear goals came back `unknown` after 1.9 h, so it is not claimed)
        segment_refine_detection(chk, 3, 1, 1, 'oblique', 2400)
    return chk.finish()


if __name__ == '__main__':
    sys.exit(main())

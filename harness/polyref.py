"""Independent reference polynomial algebra on dictionaries {exponent 6-tuple: coefficient} used as the oracle for
hiten's packed-array polynomial kernels.  Nothing here calls hiten's algebra; only the index tables (psi, clmo) are
read to convert packed arrays, and the layout itself is decided separately (C06 layout obligations)."""
from __future__ import annotations

from fractions import Fraction

from engine.sym import Sym, W, normal

NV = 6


def unpack(packed, degree):
    """Exponents from a packed 30-bit index (independent re-implementation of the documented layout)."""
    packed = int(packed)
    k = [0] * NV
    s = 0
    for i in range(1, NV):
        k[i] = (packed >> (6 * (i - 1))) & 0x3F
        s += k[i]
    k[0] = degree - s
    return tuple(k)


def from_blocks(blocks, clmo):
    """hiten polynomial (list of per-degree coefficient arrays) -> dict."""
    d = {}
    for deg, arr in enumerate(blocks):
        for pos in range(len(arr)):
            c = arr[pos]
            if isinstance(c, Sym):
                if not c.t:
                    continue
            elif c == 0:
                continue
            d[unpack(clmo[deg][pos], deg)] = Sym.lift(c)
    return d


def from_block(arr, deg, clmo):
    return from_blocks([[]] * deg + [arr], clmo)


def is_zero(c):
    c = Sym.lift(c)
    return not normal(c).t


def padd(a, b, sb=1):
    r = dict(a)
    for k, v in b.items():
        r[k] = (r[k] + sb * v) if k in r else sb * v
    return {k: v for k, v in r.items() if v.t}


def pscale(a, c):
    return {k: v * c for k, v in a.items()}


def pmul(a, b, max_deg=None):
    r = {}
    for ka, va in a.items():
        for kb, vb in b.items():
            k = tuple(x + y for x, y in zip(ka, kb))
            if max_deg is not None and sum(k) > max_deg:
                continue
            v = va * vb
            r[k] = (r[k] + v) if k in r else v
    return {k: v for k, v in r.items() if v.t}


def ppow(a, n, max_deg=None):
    r = {(0,) * NV: Sym.const(1)}
    for _ in range(n):
        r = pmul(r, a, max_deg)
    return r


def pdiff(a, var):
    r = {}
    for k, v in a.items():
        if k[var] == 0:
            continue
        kk = list(k)
        kk[var] -= 1
        r[tuple(kk)] = v * k[var]
    return r


def pint(a, var):
    r = {}
    for k, v in a.items():
        kk = list(k)
        kk[var] += 1
        r[tuple(kk)] = v * Fraction(1, k[var] + 1)
    return r


def ppoisson(a, b, max_deg=None):
    """{a, b} = sum_i  d a/d q_i * d b/d p_i - d a/d p_i * d b/d q_i   with q = vars 0..2, p = vars 3..5."""
    r = {}
    for i in range(3):
        r = padd(r, pmul(pdiff(a, i), pdiff(b, i + 3), max_deg))
        r = padd(r, pmul(pdiff(a, i + 3), pdiff(b, i), max_deg), -1)
    return r


def peval(a, point):
    tot = Sym.const(0)
    for k, v in a.items():
        term = v
        for i in range(NV):
            if k[i]:
                term = term * Sym.lift(point[i]) ** k[i]
        tot = tot + term
    return tot


def psubs_linear(a, C, shift=None, max_deg=None):
    """P(C x + s): variable i of the old polynomial is replaced by sum_j C[i][j] x_j + s_i."""
    lin = []
    for i in range(NV):
        d = {}
        for j in range(NV):
            c = Sym.lift(C[i][j])
            if c.t:
                e = [0] * NV
                e[j] = 1
                d[tuple(e)] = c
        if shift is not None:
            s = Sym.lift(shift[i])
            if s.t:
                d[(0,) * NV] = s
        lin.append(d)
    r = {}
    for k, v in a.items():
        term = {(0,) * NV: v}
        for i in range(NV):
            if k[i]:
                term = pmul(term, ppow(lin[i], k[i], max_deg), max_deg)
        r = padd(r, term)
    return r


def same_poly(a, b):
    """Coefficient-wise equality of two dict polynomials (normal-form zero test).  Returns (ok, first differing key)."""
    for k in set(a) | set(b):
        d = a.get(k, Sym({})) - b.get(k, Sym({}))
        if normal(d).t:
            return False, k
    return True, None


def by_degree(a, lo, hi):
    return {k: v for k, v in a.items() if lo <= sum(k) <= hi}


def make_sym_poly(tables, spec, prefix, complex_coeffs=False):
    """Build a hiten polynomial (list of arrays) with symbolic coefficients at the given exponent tuples.
    spec: {degree: [exponent tuples]} ; returns (blocks, dict) -- blocks use hiten's own encode to place them."""
    import engine.symnp as np
    from hiten.algorithms.polynomial.base import _encode_multiindex, _make_poly
    psi, clmo, enc = tables
    max_deg = max(spec) if spec else 0
    blocks = [_make_poly(d, psi) for d in range(max_deg + 1)]
    ref = {}
    n = 0
    for deg, ks in spec.items():
        for k in ks:
            assert sum(k) == deg
            c = W.var('%s%d' % (prefix, n))
            if complex_coeffs:
                c = c + W.I() * W.var('%si%d' % (prefix, n))
            n += 1
            pos = _encode_multiindex(np.array(list(k), dtype=np.int64), deg, enc)
            blocks[deg][pos] = c
            ref[tuple(k)] = c
    return blocks, ref


def pcompose(a, subs, max_deg):
    """a(subs_0(z), ..., subs_5(z)) truncated at total degree max_deg; subs are dict polynomials."""
    pw_cache = {}

    def power(i, n):
        key = (i, n)
        if key not in pw_cache:
            pw_cache[key] = {(0,) * NV: Sym.const(1)} if n == 0 else pmul(power(i, n - 1), subs[i], max_deg)
        return pw_cache[key]
    r = {}
    for k, v in a.items():
        term = {(0,) * NV: v}
        for i in range(NV):
            if k[i]:
                term = pmul(term, power(i, k[i]), max_deg)
        r = padd(r, term)
    return r

"""C10 — backward propagation and time grids mean what they say."""
from __future__ import annotations

import sys
from fractions import Fraction

from harness.common import *  # noqa: F401,F403
from harness.common import np, Explorer, Check, Sym, W, prove_zero, model_to_env, fmt_env, rng, explore, And, Or, Not, Implies, Stub, opaque, validate
from harness import drivers as D
from harness.drivers import same

PID = 'C10'


def directed_contract(chk):
    import hiten.algorithms.dynamics.base as db
    from hiten.algorithms.dynamics.rhs import create_rhs_system
    chk.encode(db._DirectedSystem._build_rhs_impl, db._DirectedSystem.__init__)
    dim = 4
    y = [W.var('y%d' % i) for i in range(dim)]
    t = W.var('t')

    def base_rhs(t_, y_):
        return np.array([opaque('B%d' % i, t_, *[Sym.lift(v) for v in y_]) for i in range(dim)])
    ref = base_rhs(t, np.array(y))
    for fwd in (1, -1):
        for flip, flipset in ((None, set(range(dim))), (slice(2, 4), {2, 3}), ([0, 3], {0, 3}), (slice(0, 4), set(range(dim)))):
            db._DirectedSystem._rhs_cache.clear()
            ds = db._DirectedSystem(create_rhs_system(base_rhs, dim), fwd, flip_indices=flip)
            out = ds.rhs(t, np.array(y))
            ok = all(same(out[i], (-ref[i] if (fwd == -1 and i in flipset) else ref[i])) for i in range(dim))
            oid = 'C10/(1)directed-rhs/fwd=%+d/flip=%s' % (fwd, flip)
            if ok:
                chk.ok(oid, 'returns the base field with exactly the documented components negated (all of them for flip=None)')
            else:
                chk.fail(oid, 'directed right-hand side is %s' % ([repr(Sym.lift(v))[:40] for v in out],), '''
from hiten.algorithms.dynamics.base import _DirectedSystem
from hiten.algorithms.dynamics.rhs import create_rhs_system
import numba
@numba.njit
def base(t, y):
    return np.array([1.0 + y[0], 2.0 + t, 3.0 * y[2], 4.0])
flip = %s
out = _DirectedSystem(create_rhs_system(base, 4), %d, flip_indices=flip).rhs(0.5, np.array([0.1, 0.2, 0.3, 0.4]))
ref = np.array([1.1, 2.5, 0.9, 4.0]); want = ref.copy()
if %d == -1:
    idx = range(4) if flip is None else (range(*flip.indices(4)) if isinstance(flip, slice) else flip)
    for i in idx: want[i] = -ref[i]
_verdict(not np.allclose(out, want), got=out.tolist(), want=want.tolist())
''' % (('slice(%r, %r)' % (flip.start, flip.stop)) if isinstance(flip, slice) else repr(flip), fwd, fwd))
    # the compiled-wrapper cache must not hand the wrapper of ONE flip setting to a later request with ANOTHER on the same base system:
    # consecutive builds on one system without clearing the cache in between
    db._DirectedSystem._rhs_cache.clear()
    base_sys = create_rhs_system(base_rhs, dim)
    seq_ok, seq_bad = True, None
    for flip, flipset in (([0, 3], {0, 3}), (None, set(range(dim))), (slice(2, 4), {2, 3}), ([0, 3], {0, 3}), ([1], {1})):
        out = db._DirectedSystem(base_sys, -1, flip_indices=flip).rhs(t, np.array(y))
        if not all(same(out[i], (-ref[i] if i in flipset else ref[i])) for i in range(dim)):
            seq_ok, seq_bad = False, flip
            break
    oid = 'C10/(1)directed-rhs/consecutive flip settings on one system'
    if seq_ok:
        chk.ok(oid, 'five backward wrappers with different flip_indices built one after the other on the same base system: each negates exactly its own components')
    else:
        chk.fail(oid, 'after an earlier backward wrapper on the same system, the wrapper for flip_indices=%r negates the components of an earlier request' % (seq_bad,), '''
from hiten.algorithms.dynamics.base import _DirectedSystem
from hiten.algorithms.dynamics.rhs import create_rhs_system
import numba
@numba.njit
def base(t, y):
    return np.array([1.0 + y[0], 2.0 + t, 3.0 * y[2], 4.0])
sysm = create_rhs_system(base, 4); ref = np.array([1.1, 2.5, 0.9, 4.0]); bad = {}
for n, flip in enumerate(([0, 3], None, slice(2, 4), [0, 3], [1])):
    out = np.asarray(_DirectedSystem(sysm, -1, flip_indices=flip).rhs(0.5, np.array([0.1, 0.2, 0.3, 0.4])), dtype=float)
    idx = range(4) if flip is None else (range(*flip.indices(4)) if isinstance(flip, slice) else flip)
    want = ref.copy()
    for i in idx: want[i] = -ref[i]
    if not np.allclose(out, want): bad["request_%d_flip_%s" % (n, flip)] = "got %s, want %s" % (out.tolist(), want.tolist())
_verdict(bool(bad), **bad)
''')
    # fwd is normalised to +-1 by sign
    for fwd_in, want in ((2, 1), (0, 1), (-3, -1)):
        ds = db._DirectedSystem(create_rhs_system(base_rhs, dim), fwd_in)
        (chk.ok if ds._fwd == want else (lambda o, d: chk.fail(o, d, None)))('C10/(1)directed-rhs/normalise fwd=%d' % fwd_in, '_fwd = %d' % ds._fwd, nontrivial=False)


def time_signs(chk):
    """(2) _propagate_dynsys returns forward * (requested grid) for every method; run through the real integrate()
    methods with the compiled drivers replaced by recorders."""
    import hiten.algorithms.dynamics.base as db
    import hiten.algorithms.integrators.rk as rk
    import hiten.algorithms.integrators.symplectic as sp
    from hiten.algorithms.dynamics.base import _DynamicalSystem
    chk.encode(db._propagate_dynsys, rk._FixedStepRK.integrate, rk._RK45.integrate, rk._DOP853.integrate, sp._ExtendedSymplectic.integrate)

    class FakeHam(_DynamicalSystem):
        def __init__(self):
            super().__init__(6)
            self.jac_H, self.clmo_H, self.name = 'JAC', 'CLMO', 'fake'

        n_dof = 3

        @property
        def rhs_params(self):
            return ('JAC', 'CLMO', 3)

        def dH_dQ(self, Q, P):
            return Q

        def dH_dP(self, Q, P):
            return P

        def poly_H(self):
            return []

        def _build_rhs_impl(self):
            return lambda t, y: np.array([opaque('HF%d' % i, *[Sym.lift(v) for v in y]) for i in range(6)])

    seen = {}

    def fixed_drv(*a, **k):
        t_vals = a[2] if len(a) > 2 else k['t_vals']
        seen['grid'] = t_vals
        n = len(t_vals)
        st = np.array([[W.var('Z%d_%d' % (r, c)) for c in range(6)] for r in range(n)])
        return st, st.copy()

    def fixed_drv_ham(y0, t_vals, *a, **k):
        seen['grid'] = t_vals
        n = len(t_vals)
        st = np.array([[W.var('Z%d_%d' % (r, c)) for c in range(6)] for r in range(n)])
        return st, st.copy()

    def adapt_drv(**k):
        seen['grid'] = k['t_eval']
        n = len(k['t_eval'])
        st = np.array([[W.var('Z%d_%d' % (r, c)) for c in range(6)] for r in range(n)])
        return st, st.copy()

    def symp_drv(**k):
        seen['grid'] = k['t_values']
        n = len(k['t_values'])
        return np.array([[W.var('Z%d_%d' % (r, c)) for c in range(6)] for r in range(n)])

    saved = [(rk._FixedStepRK, '_integrate_fixed_rk', rk._FixedStepRK.__dict__['_integrate_fixed_rk']),
             (rk._FixedStepRK, '_integrate_fixed_rk_ham', rk._FixedStepRK.__dict__['_integrate_fixed_rk_ham']),
             (rk._RK45, '_integrate_rk45', rk._RK45.__dict__['_integrate_rk45']), (rk._RK45, '_integrate_rk45_ham', rk._RK45.__dict__['_integrate_rk45_ham']),
             (rk._DOP853, '_integrate_dop853', rk._DOP853.__dict__['_integrate_dop853']), (rk._DOP853, '_integrate_dop853_ham', rk._DOP853.__dict__['_integrate_dop853_ham'])]
    rk._FixedStepRK._integrate_fixed_rk = staticmethod(fixed_drv)
    rk._FixedStepRK._integrate_fixed_rk_ham = staticmethod(fixed_drv_ham)
    rk._RK45._integrate_rk45 = staticmethod(adapt_drv)
    rk._RK45._integrate_rk45_ham = staticmethod(adapt_drv)
    rk._DOP853._integrate_dop853 = staticmethod(adapt_drv)
    rk._DOP853._integrate_dop853_ham = staticmethod(adapt_drv)
    saved_sp = sp._integrate_symplectic
    sp._integrate_symplectic = symp_drv
    T = W.var('T')
    ex = Explorer()
    with explore.activate(ex):
        ex.assume(T >= Fraction(1, 100))
    y0 = np.array([W.var('s%d' % i) for i in range(6)])
    try:
        for method, order in (('fixed', 4), ('fixed', 8), ('adaptive', 5), ('adaptive', 8), ('symplectic', 4)):
            for forward in (1, -1):
                db._DirectedSystem._rhs_cache.clear()
                seen.clear()
                oid = 'C10/(2)time-signs/%s(order=%d)/forward=%+d' % (method, order, forward)
                try:
                    with explore.activate(ex):
                        sol = db._propagate_dynsys(FakeHam(), y0, Sym.const(0), T, forward=forward, steps=3, method=method, order=order)
                except Exception as e:   # noqa
                    chk.fail(oid, 'raised %r' % (e,), None)
                    continue
                want = [forward * Sym.const(0), forward * T / 2, forward * T]
                ok = len(sol.times) == 3 and all(same(sol.times[k], want[k]) for k in range(3))
                if ok:
                    chk.ok(oid, 'returned times = forward * linspace(0, T, 3): %s for forward=-1' % ('non-positive and decreasing' if forward == -1 else 'n/a'),
                           sample={'method': method, 'forward': forward, 'times': [repr(Sym.lift(x)) for x in sol.times]})
                else:
                    chk.fail(oid, 'returned times %s, expected %s' % ([repr(Sym.lift(x)) for x in sol.times], [repr(x) for x in want]), D.HAM_PRELUDE + '''
from hiten.algorithms.dynamics.base import _propagate_dynsys
from hiten.algorithms.dynamics.rtbp import rtbp_dynsys
method, order, forward = %r, %d, %d
if method == 'symplectic':
    sol = _propagate_dynsys(make_hamsys(), Y0, 0.0, 0.5, forward=forward, steps=5, method=method, order=order)
else:
    sol = _propagate_dynsys(rtbp_dynsys(0.0121), np.array([0.8, 0.0, 0.0, 0.0, 0.2, 0.0]), 0.0, 0.5, forward=forward, steps=5, method=method, order=order)
t = np.asarray(sol.times)
good = np.allclose(t, forward * np.linspace(0.0, 0.5, 5), atol=1e-14)
_verdict(not good, times=t.tolist(), expected=(forward * np.linspace(0.0, 0.5, 5)).tolist())
''' % (method, order, forward))
    finally:
        for cls, name, val in saved:
            setattr(cls, name, val)
        sp._integrate_symplectic = saved_sp
    chk.absorb(ex)


def adaptive_skeleton(chk, pid, scheme, ham, max_steps, budget, descending=False):
    """Real adaptive driver loop; kernels, field and controller helpers uninterpreted (contracts as constraints).
    Obligations per kernel call: h > 0, h <= max_step, t + h <= tf (time never passes the end point); per transition:
    the state advanced only if the documented error norm <= 1; first output row = y0; a descending grid never yields output silently."""
    import hiten.algorithms.integrators.rk as rk
    dim = 1
    tr = D.Tracker(dim, max_steps)
    t0, tf = W.var('tA'), W.var('tB')
    y0 = np.array([W.var('y0_0')])
    rtol, atol, hmax, hmin = W.vars('rtol atol max_step min_step')
    tag = '%s%s%s' % (scheme, '_ham' if ham else '', '/descending' if descending else '')
    ex = Explorer(max_paths=3000 if budget <= 300 else 30000, time_budget_s=budget, max_decisions=150)
    ex.abs_by_branch = False
    with explore.activate(ex):
        ex.assume((t0 > tf) if descending else (t0 < tf))
        ex.assume(rtol > 0)
        ex.assume(atol > 0)
        ex.assume(hmin > 0)
        ex.assume(hmin <= hmax)
    t_eval = np.array([t0, tf])
    cls = rk._RK45 if scheme == 'rk45' else rk._DOP853

    def go():
        tr.reset()
        with D.stubbed(rk, tr) as f:
            try:
                if descending:
                    # through the public integrate() of the integrator object (that is where grids are validated)
                    from hiten.algorithms.dynamics.rhs import create_rhs_system
                    integ = rk.AdaptiveRK(order=5 if scheme == 'rk45' else 8, rtol=rtol, atol=atol, max_step=hmax, min_step=hmin)
                    sol = integ.integrate(create_rhs_system(f, 1), y0, t_eval)
                    return ('done', (sol.states, sol.derivatives), tr.snapshot())
                if scheme == 'rk45':
                    if ham:
                        out = cls._integrate_rk45_ham(y0=y0, t_eval=t_eval, A=cls._A, B_HIGH=cls._B_HIGH, C=cls._C, E=cls._E, P=rk.RK45_P, rtol=rtol, atol=atol,
                                                      max_step=hmax, min_step=hmin, order=5, jac_H=None, clmo_H=None, n_dof=1)
                    else:
                        out = cls._integrate_rk45(f=f, y0=y0, t_eval=t_eval, A=cls._A, B_HIGH=cls._B_HIGH, C=cls._C, E=cls._E, P=rk.RK45_P, rtol=rtol, atol=atol,
                                                  max_step=hmax, min_step=hmin, order=5)
                else:
                    kw = dict(y0=y0, t_eval=t_eval, A=cls._A, B_HIGH=cls._B_HIGH, C=cls._C, E5=cls._E5, E3=cls._E3, D=rk.DOP853_D,
                              n_stages_extended=rk.DOP853_N_STAGES_EXTENDED, interpolator_power=rk.DOP853_INTERPOLATOR_POWER, A_full=rk.DOP853_A, C_full=rk.DOP853_C,
                              rtol=rtol, atol=atol, max_step=hmax, min_step=hmin, order=8)
                    if ham:
                        out = cls._integrate_dop853_ham(jac_H=None, clmo_H=None, n_dof=1, **kw)
                    else:
                        out = cls._integrate_dop853(f=f, **kw)
                return ('done', out, tr.snapshot())
            except D.StopUnwinding:
                return ('cut', None, tr.snapshot())
    paths = ex.run(go)
    ndone = 0
    for n, p in enumerate(paths):
        base = '%s/skeleton/%s/path %d' % (pid, tag, n)
        if isinstance(p.exc, explore.PathAbort):
            continue
        if descending:
            if p.exc is not None:
                chk.ok(base, 'descending grid rejected: %s' % type(p.exc).__name__)
                continue
            status, out, snap = p.value
            if status == 'done' and not snap['steps']:
                chk.fail('%s/skeleton/%s/silent' % (pid, tag), 'a strictly decreasing grid is accepted and the integrator returns output without taking a single step (every row is the initial state)',
                         _replay_desc(scheme), None)
            else:
                chk.ok(base, 'descending grid integrated by %d kernel calls' % len(snap['steps']))
            continue
        if p.exc is not None:
            chk.fail(base, 'driver raised %r' % (p.exc,), None)
            continue
        status, out, snap = p.value
        steps = snap['steps']
        _a = explore.activate(ex)
        _a.__enter__()
        try:
            goals = []
            for k, s in enumerate(steps):
                h, t = Sym.lift(s['h']), Sym.lift(s['t'])
                goals += [h > 0, h <= hmax, (t + h) <= tf, t >= t0]
                if k + 1 < len(steps):
                    nx = steps[k + 1]
                    advanced = same(nx['t'], t + h) and same(nx['y'], s['yh'])
                    stayed = same(nx['t'], t) and same(nx['y'], s['y'])
                    if not (advanced or stayed):
                        goals.append(False)
                    if advanced:
                        goals.append(_err_ok(s, snap, scheme))
            if status == 'done':
                ndone += 1
                y_out = out[0]
                goals.append((Sym.lift(y_out[0, 0]) - y0[0]) == 0)
                if steps:
                    last = steps[-1]
                    goals.append((Sym.lift(last['t']) + last['h'] - tf) == 0)       # the last accepted step lands exactly on tf
                    goals.append(_err_ok(last, snap, scheme))
        finally:
            _a.__exit__()
        v, m, kk = ex.prove_all(p, goals)
        if v == 'unsat':
            chk.ok(base, '%s after %d kernel calls: h in (0, max_step], t+h <= tf, advance only with err_norm <= 1%s' % (
                status, len(steps), ', first row = y0, last step ends on tf' if status == 'done' else ''),
                sample={'status': status, 'kernel_calls': len(steps)} if n in (0, 3) else None)
        elif v == 'sat':
            env = model_to_env(m)
            chk.fail(base, 'controller contract goal %d fails after %d kernel calls at %s' % (kk, len(steps), fmt_env(env)), None, env)
        else:
            chk.unknown(base, v)
    st = chk.absorb(ex)
    chk.note('%s %s: %d paths (%d terminated within %d kernel calls)' % (pid, tag, st['paths'], ndone, max_steps))


def _err_ok(s, snap, scheme):
    """Documented acceptance test evaluated on the recorded kernel output and the scale the driver used for it."""
    scale = None
    for hname, *rest in snap['helpers']:
        if hname == 'scale':
            sc = rest[0]
            (i,) = [a for a in [D.aidx(Sym.lift(sc[0]))]]
            args = W.defn[i][1]
            if same(args[0], s['y'][0]) and same(args[1], s['yh'][0]):
                scale = Sym.lift(sc[0])
    if scale is None:
        return False
    if scheme == 'rk45':
        e = Sym.lift(s['err'][0]) / scale
        return e * e <= 1          # rms norm of a 1-vector
    e5 = Sym.lift(s['err5'][0]) / scale
    e3 = Sym.lift(s['err3'][0]) / scale
    n5, n3 = e5 * e5, e3 * e3
    h = Sym.lift(s['h'])
    # |h| n5 / sqrt((n5 + 0.01 n3) * 1) <= 1   <=>   h^2 n5^2 <= n5 + n3/100   (or both zero)
    return Or(And(n5 == 0, n3 == 0), h * h * n5 * n5 <= n5 + n3 / 100)


def _replay_general():
    """General confirmation on the compiled build: a non-autonomous problem with a known solution is propagated forward and backward
    through _propagate_dynsys with every integrator family on uniform and non-uniform grids: returned times are the requested ones
    (with the sign convention of backward propagation), states are the solution at those times, backward undoes forward."""
    return D.HAM_PRELUDE + '''
from hiten.algorithms.dynamics.base import _propagate_dynsys
from hiten.algorithms.dynamics.rhs import create_rhs_system
import numba
@numba.njit
def rhs(t, y):
    return np.array([y[1], -y[0] + 0.5 * np.cos(2.0 * t)])       # y0'' + y0 = cos(2t)/2: y0 = a cos t + b sin t - cos(2t)/6
sysm = create_rhs_system(rhs, dim=2, name="forced oscillator")
def exact(t, y0):
    a = y0[0] + 1.0 / 6.0; b = y0[1]
    return np.array([a * np.cos(t) + b * np.sin(t) - np.cos(2 * t) / 6.0, -a * np.sin(t) + b * np.cos(t) + np.sin(2 * t) / 3.0])
bad = {}; y0 = np.array([0.3, -0.2])
for method, order, tol in (("fixed", 4, 2e-6), ("fixed", 6, 1e-7), ("fixed", 8, 1e-8), ("adaptive", 5, 1e-5), ("adaptive", 8, 1e-6)):
    for forward in (1, -1):
        for steps in (200, 331):
            tf = 1.7
            sol = _propagate_dynsys(dynsys=sysm, state0=y0.copy(), t0=0.0, tf=tf, forward=forward, steps=steps, method=method, order=order)
            t = np.asarray(sol.times, dtype=float); y = np.asarray(sol.states, dtype=float)
            tag = "%s%d_forward%+d_steps%d" % (method, order, forward, steps)
            if t.shape[0] != steps: bad[tag + "_count"] = "%d times returned" % t.shape[0]; continue
            if abs(t[0]) > 1e-14 or abs(abs(t[-1]) - tf) > 1e-12 or np.sign(t[-1]) != forward: bad[tag + "_times"] = "times run from %.3f to %.3f" % (t[0], t[-1]); continue
            if np.any(np.diff(t) * forward <= 0): bad[tag + "_monotone"] = "times are not strictly monotone in the direction of propagation"; continue
            err = max(float(np.max(np.abs(y[i] - exact(t[i], y0)))) for i in range(0, steps, 7))
            if err > tol: bad[tag + "_states"] = "max error %.2e against the solution at the returned times" % err
    # backward undoes forward
    a = _propagate_dynsys(dynsys=sysm, state0=y0.copy(), t0=0.0, tf=1.3, forward=1, steps=400, method=method, order=order)
    ye = np.asarray(a.states[-1], dtype=float)
hs = make_hamsys(0.7, mixed=0.4)
for method, order in (("fixed", 8), ("adaptive", 8), ("symplectic", 6)):
    f = _propagate_dynsys(dynsys=hs, state0=Y0.copy(), t0=0.0, tf=1.0, forward=1, steps=801, method=method, order=order)
    b = _propagate_dynsys(dynsys=hs, state0=np.asarray(f.states[-1], dtype=float), t0=0.0, tf=1.0, forward=-1, steps=801, method=method, order=order)
    back = float(np.max(np.abs(np.asarray(b.states[-1], dtype=float) - Y0)))
    if back > (1e-6 if method == "symplectic" else 1e-8): bad["hamiltonian_%s_backward_does_not_undo_forward" % method] = back
    tb = np.asarray(b.times, dtype=float)
    if not (tb[0] == 0.0 and abs(tb[-1] + 1.0) < 1e-12): bad["hamiltonian_%s_backward_times" % method] = [float(tb[0]), float(tb[-1])]
_verdict(bool(bad), **{k: bad[k] for k in list(bad)[:8]})
'''


def _replay_desc(scheme):
    return '''
from hiten.algorithms.integrators.rk import AdaptiveRK
from hiten.algorithms.dynamics.rhs import create_rhs_system
import numba
@numba.njit
def rhs(t, y):
    return np.array([1.0])
sysm = create_rhs_system(rhs, dim=1, name='unit-speed')
try:
    sol = AdaptiveRK(order=%d).integrate(sysm, np.array([0.0]), np.array([1.0, 0.5, 0.0]))
    silent = bool(np.all(sol.states[:, 0] == 0.0))
    _verdict(silent, states=sol.states[:, 0].tolist(), exact=[0.0, -0.5, -1.0])
except Exception as e:
    _verdict(False, rejected=type(e).__name__)
''' % (5 if scheme == 'rk45' else 8)


def fixed_grids(chk):
    """(3) fixed-step driver on ascending and descending 3-node grids: exact chaining with h_k = t_{k+1} - t_k."""
    import hiten.algorithms.integrators.rk as rk
    chk.encode(rk._FixedStepRK._integrate_fixed_rk, rk._FixedStepRK._integrate_fixed_rk_ham)
    for ham in (False, True):
        tr = D.Tracker(2, 10)
        T = [W.var('g%d' % k) for k in range(3)]
        y0 = np.array([W.var('a0'), W.var('a1')])
        with D.stubbed(rk, tr) as f:
            integ = rk.RungeKutta(order=4)
            if ham:
                states, derivs = rk._FixedStepRK._integrate_fixed_rk_ham(y0, np.array(T), integ._A, integ._B_HIGH, np.empty(0), integ._C, False, None, None, 1)
            else:
                states, derivs = rk._FixedStepRK._integrate_fixed_rk(f, y0, np.array(T), integ._A, integ._B_HIGH, np.empty(0), integ._C, False)
        ok = same(states[0], y0) and len(tr.steps) == 2
        for k, s in enumerate(tr.steps):
            ok = ok and same(s['t'], T[k]) and same(s['h'], T[k + 1] - T[k]) and same(s['y'], states[k]) and same(states[k + 1], s['yh'])
        oid = 'C10/(3)fixed-grid/%s' % ('ham' if ham else 'generic')
        (chk.ok if ok else (lambda o, d: chk.fail(o, d, _replay_fixed_grid())))(oid, 'states[0] = y0 and states[k+1] = step(t_k, states[k], t_{k+1} - t_k) for any monotone grid (signed h: a descending grid integrates backward)')


def symplectic_grid(chk):
    import hiten.algorithms.integrators.symplectic as sp
    chk.encode(sp._integrate_symplectic)
    T = [W.var('g%d' % k) for k in range(3)]
    y0 = np.array([W.var('q%d' % i) for i in range(6)])
    calls = []
    saved = (sp._recursive_update_poly, sp._get_tao_omega)

    def upd(q_ext, dt, order, omega, jac_H, clmo_H):
        calls.append((q_ext.copy(), dt))
        a = [Sym.lift(v) for v in q_ext] + [Sym.lift(dt)]
        for i in range(len(q_ext)):
            q_ext[i] = opaque('U%d' % i, *a)
    sp._recursive_update_poly = upd
    sp._get_tao_omega = lambda dt, order, c: opaque('omega', dt)
    try:
        traj = sp._integrate_symplectic(y0, np.array(T), None, None, 4, 20.0)
    finally:
        sp._recursive_update_poly, sp._get_tao_omega = saved
    ok = same(traj[0], y0) and len(calls) == 2 and same(calls[0][1], T[1] - T[0]) and same(calls[1][1], T[2] - T[1])
    ok = ok and same(calls[0][0][:6], y0) and same(calls[0][0][6:], y0)
    (chk.ok if ok else (lambda o, d: chk.fail(o, d, _replay_symplectic_grid())))('C10/(3)symplectic-grid', 'first row = y0; step k uses dt = t_{k+1} - t_k (signed) on the extended state started at (y0, y0)')


def _replay_symplectic_grid():
    return D.HAM_PRELUDE + '''
from hiten.algorithms.integrators.symplectic import _ExtendedSymplectic
hs = make_hamsys(0.5)
grid = np.array([0.0, 0.02, 0.1, 0.4, 0.45, 1.0])
integ = _ExtendedSymplectic(order=4)
sol = integ.integrate(hs, Y0, grid)
worst = 0.0
for k in (2, 3):
    fine = np.linspace(0.0, grid[k], 400)
    ref = _ExtendedSymplectic(order=4).integrate(hs, Y0, fine).states[-1]
    worst = max(worst, float(np.max(np.abs(sol.states[k] - ref))))
first_ok = np.allclose(sol.states[0], Y0)
_verdict(worst > 1e-4 or not first_ok, interior_sample_deviation=worst, first_sample_is_y0=bool(first_ok))
'''


def _replay_fixed_grid():
    """Compiled build: fixed-step RK on non-uniform ascending and descending grids, through the generic kernel and through the
    Hamiltonian fast-path kernel (polynomial Hamiltonian system passed directly): every sample is the flow at its own grid time."""
    return D.HAM_PRELUDE + '''
from hiten.algorithms.integrators.rk import RungeKutta
from hiten.algorithms.dynamics.rhs import create_rhs_system
import numba
@numba.njit
def rhs(t, y):
    return np.array([y[1], -y[0]])
sysm = create_rhs_system(rhs, dim=2, name='oscillator')
bad = []
for grid in (np.array([0.0, 0.02, 0.1, 0.4, 0.45, 1.0]), np.array([1.0, 0.45, 0.4, 0.1, 0.02, 0.0])):
    sol = RungeKutta(order=8).integrate(sysm, np.array([1.0, 0.0]), grid)
    t = grid - grid[0]
    err = float(np.max(np.abs(sol.states[:, 0] - np.cos(t))))
    if err > 1e-6 or not np.allclose(sol.states[0], [1.0, 0.0]) or not np.array_equal(sol.times, grid): bad.append(("generic", grid.tolist(), err))
hs = make_hamsys(0.7, mixed=0.4)
fine = np.linspace(0.0, 1.0, 2001); ref = RungeKutta(order=8).integrate(hs, Y0.copy(), fine)
refb = RungeKutta(order=8).integrate(hs, Y0.copy(), -fine)
for order in (4, 6, 8):
    for grid, r in ((np.array([0.0, 0.0125, 0.05, 0.2, 0.225, 0.5, 0.51, 0.8, 1.0]), ref), (-np.array([0.0, 0.0125, 0.05, 0.2, 0.225, 0.5, 0.51, 0.8, 1.0]), refb)):
        dense = np.sort(np.unique(np.concatenate([grid, np.linspace(grid[0], grid[-1], 161)])))[:: (1 if grid[-1] > 0 else -1)]
        sol = RungeKutta(order=order).integrate(hs, Y0.copy(), dense)
        want = np.array([[np.interp(abs(tt), fine, np.asarray(r.states)[:, i]) for i in range(6)] for tt in dense])
        err = float(np.max(np.abs(np.asarray(sol.states) - want)))
        if err > (5e-6 if order == 4 else 1e-6) or not np.array_equal(np.asarray(sol.times), dense): bad.append(("hamiltonian fast path order %d" % order, "descending" if grid[-1] < 0 else "ascending", err))
_verdict(bool(bad), problems=bad[:4])
'''


def main():
    chk = Check(PID)
    chk.default_replay = _replay_general
    import hiten.algorithms.integrators.rk as rk
    thorough = chk.tier == 'thorough'
    chk.encode(rk._RK45._integrate_rk45, rk._RK45._integrate_rk45_ham, rk._DOP853._integrate_dop853, rk._DOP853._integrate_dop853_ham)
    chk.bound(kernel_calls='adaptive loops unwound to %s kernel calls (paths needing more are cut there; their prefixes are still checked)' % ('3 (RK45) / 2 (DOP853)' if thorough else '2'),
              grid='2 output nodes for the adaptive drivers, 3 for fixed-step and symplectic', state_dim='1 (adaptive skeleton), 2/6 elsewhere')
    chk.assume('step kernels, vector field and the helpers _select_initial_step/_error_scale/_pi_*_factor are uninterpreted functions constrained by their contracts '
               '(h_init in [min_step, max_step], scale > 0, factors in [0.2, 10]); 0 < min_step <= max_step, rtol, atol > 0')
    chk.out_of_scope('accuracy of a forward/backward round trip (C02)', 'more than the stated number of steps (no inductive invariant is claimed)')
    directed_contract(chk)
    time_signs(chk)
    fixed_grids(chk)
    symplectic_grid(chk)
    ms = 3 if thorough else 2
    for scheme in ('rk45', 'dop853'):
        adaptive_skeleton(chk, 'C10/(3)', scheme, False, 1, 200, descending=True)
        for ham in (False, True):
            # three kernel calls through DOP853's error-norm logic exceed 30000 paths: the thorough tier takes RK45 to three calls, DOP853 stays at two
            adaptive_skeleton(chk, 'C10/(3)', scheme, ham, ms if scheme == 'rk45' else 2, 3000 if thorough else 300)
    return chk.finish()


if __name__ == '__main__':
    sys.exit(main())

"""C01 — field, linearisation and energy integral are mutually consistent."""
from __future__ import annotations

import sys

from harness.common import *  # noqa: F401,F403
from harness.common import np, Explorer, Check, Sym, W, prove_zero, model_to_env, extract_nested, Stub, call_property, rng, fmt_env, validate

PID = 'C01'


def state_vars():
    x, y, z, vx, vy, vz, mu = W.vars('x y z vx vy vz mu')
    return [x, y, z, vx, vy, vz], mu


def domain(ex, X, mu, delta='1/1000'):
    """0 < mu <= 1/2, both primary distances > delta."""
    from fractions import Fraction
    x, y, z = X[:3]
    r1 = ((x + mu) ** 2 + y ** 2 + z ** 2).sqrt()
    r2 = ((x - 1 + mu) ** 2 + y ** 2 + z ** 2).sqrt()
    d = Fraction(delta)
    with explore.activate(ex):
        pre = [mu > 0, mu <= Fraction(1, 2), r1 > d, r2 > d]
    for p in pre:
        ex.assume(p)
    return r1, r2


def fd_replay_jac(env, i, j):
    return '''
from hiten.algorithms.dynamics.rtbp import _crtbp_accel, _jacobian_crtbp
s = np.array(%r, dtype=float); mu = %r
F = _jacobian_crtbp(s[0], s[1], s[2], mu)
h = 1e-6
e = np.zeros(6); e[%d] = h
fd = (_crtbp_accel(s + e, mu)[%d] - _crtbp_accel(s - e, mu)[%d]) / (2*h)
_verdict(abs(F[%d, %d] - fd) > 1e-6 * max(1.0, abs(fd)), F=float(F[%d, %d]), finite_difference=float(fd))
''' % ([float(env[k]) for k in 'x y z vx vy vz'.split()], float(env['mu']), j, i, i, i, j, i, j)


def fd_replay_vareq(env, comp):
    return '''
from hiten.algorithms.dynamics.rtbp import _crtbp_accel, _var_equations
rs = np.random.default_rng(1)
s = np.array(%r, dtype=float); mu = %r
Phi = rs.normal(size=(6, 6))
y = np.concatenate([Phi.ravel(), s])
d = _var_equations(0.0, y, mu)
f = _crtbp_accel(s, mu)
h = 1e-6
J = np.zeros((6, 6))
for j in range(6):
    e = np.zeros(6); e[j] = h
    J[:, j] = (_crtbp_accel(s + e, mu) - _crtbp_accel(s - e, mu)) / (2*h)
ref = np.concatenate([(J @ Phi).ravel(), f])
k = %d
_verdict(abs(d[k] - ref[k]) > 1e-5 * max(1.0, abs(ref[k])), component=k, var_eq=float(d[k]), reference=float(ref[k]))
''' % ([float(env[k]) for k in 'x y z vx vy vz'.split()], float(env['mu']), comp)


def fd_replay_energy(env, expr, imports):
    return '''
from hiten.algorithms.dynamics.rtbp import _crtbp_accel
%s
s = np.array(%r, dtype=float); mu = %r
G = lambda s: float(%s)
f = _crtbp_accel(s, mu)
h = 1e-6
dG = 0.0
for j in range(6):
    e = np.zeros(6); e[j] = h
    dG += (G(s + e) - G(s - e)) / (2*h) * f[j]
# second confirmation through the public integrator: drift of G along a short trajectory
from hiten.algorithms.dynamics.rtbp import rtbp_dynsys
from hiten.algorithms.dynamics.base import _propagate_dynsys
sol = _propagate_dynsys(rtbp_dynsys(mu), s, 0.0, 0.05, steps=20, method='adaptive', order=8)
drift = abs(G(sol.states[-1]) - G(sol.states[0]))
_verdict(abs(dG) > 1e-6 and drift > 1e-8, dG_dt=dG, drift_over_0p05=drift)
''' % (imports, [float(env[k]) for k in 'x y z vx vy vz'.split()], float(env['mu']), expr)


def main():
    chk = Check(PID)
    import hiten.algorithms.dynamics.rtbp as rtbp
    import hiten.algorithms.common.energy as en
    from hiten.algorithms.types.services import orbits as svc_orb, libration as svc_lib

    X, mu = state_vars()
    ex = Explorer()
    r1, r2 = domain(ex, X, mu)
    st, m = ex.check([], ())
    if st != 'sat':
        chk.vacuous('C01/domain', 'preconditions unsatisfiable: %s' % st)
    else:
        chk.vacuity_witness('C01/domain', model_to_env(m))

    chk.bound(mu='(0, 1/2] symbolic', state='all 6-D states with r1, r2 > 1/1000 (symbolic, z and vz free)',
              Phi='36 symbolic entries', loops='none depend on data')
    chk.assume('0 < mu <= 1/2', 'distance to both primaries > 1e-3 (the singularity warning branch r < 1e-10 is then infeasible)')
    chk.out_of_scope('numerical drift of the integrals along an integrated trajectory (follows from the decided identities plus integrator accuracy, C02)',
                     'floating-point rounding')
    chk.trust('chain-rule differentiation of the normal form (engine/sym.py) as the derivative oracle', 'z3 4/5 nlsat for residuals that do not normalise to 0')
    chk.encode(rtbp._crtbp_accel, rtbp._jacobian_crtbp, rtbp._var_equations, en.crtbp_energy, en.kinetic_energy,
               en.effective_potential, en.gravitational_potential, en.energy_to_jacobi, en.jacobi_to_energy, en._max_rel_energy_error,
               rtbp._RTBPRHS._build_rhs_impl, rtbp._JacobianRHS._build_rhs_impl, rtbp._VarEqRHS._build_rhs_impl)

    with explore.activate(ex):
        f = rtbp._crtbp_accel(np.array(X), mu)
        F = rtbp._jacobian_crtbp(X[0], X[1], X[2], mu)
        # the rhs closures the integrators actually call (mu baked in as the same symbol)
        sys_f = Stub(_mu_val=mu)
        rhs_f = rtbp._RTBPRHS._build_rhs_impl(sys_f)
        rhs_J = rtbp._JacobianRHS._build_rhs_impl(sys_f)
        rhs_V = rtbp._VarEqRHS._build_rhs_impl(sys_f)
        f_cl = rhs_f(Sym.const(0), np.array(X))
        F_cl = rhs_J(Sym.const(0), np.array(X))

    names = 'x y z vx vy vz'.split()
    # (1) Jacobian = derivative of the field
    for i in range(6):
        for j in range(6):
            res = Sym.lift(F[i, j]) - Sym.lift(f[i]).diff(X[j])
            v, m, info = prove_zero(ex, res)
            oid = 'C01/(1)jacobian/F[%d,%d]=d f%d/d %s' % (i, j, i, names[j])
            if v == 'unsat':
                chk.ok(oid, info.get('by', ''), nontrivial=bool(Sym.lift(F[i, j]).t or Sym.lift(f[i]).diff(X[j]).t),
                       sample={'F_ij': repr(Sym.lift(F[i, j]))[:200]} if (i, j) == (3, 1) else None)
            elif v == 'sat':
                env = model_to_env(m)
                chk.fail(oid, 'Jacobian entry differs from the derivative of the field at %s' % fmt_env(env), fd_replay_jac(env, i, j), env)
            else:
                chk.unknown(oid, 'solver: %s' % v)
    # closures expose the same functions
    for i in range(6):
        v, m, info = prove_zero(ex, Sym.lift(f_cl[i]) - Sym.lift(f[i]))
        (chk.ok if v == 'unsat' else chk.unknown)('C01/(1)rhs-closure/f[%d]' % i, info.get('by', ''))
        for j in range(6):
            v, m, info = prove_zero(ex, Sym.lift(F_cl[i, j]) - Sym.lift(F[i, j]))
            (chk.ok if v == 'unsat' else chk.unknown)('C01/(1)jacobian-closure/F[%d,%d]' % (i, j), info.get('by', ''), nontrivial=False)

    # (2) variational system
    Phi = [[W.var('P%d%d' % (i, j)) for j in range(6)] for i in range(6)]
    y42 = np.array([Phi[i][j] for i in range(6) for j in range(6)] + X)
    with explore.activate(ex):
        d42 = rtbp._var_equations(Sym.const(0), y42, mu)
        d42c = rhs_V(Sym.const(0), y42)
    for k in range(42):
        if k < 36:
            i, j = divmod(k, 6)
            ref = Sym.const(0)
            for l in range(6):
                ref = ref + Sym.lift(f[i]).diff(X[l]) * Phi[l][j]
            what = 'Phi-block (%d,%d) = sum_k d f%d/d x_k * Phi[k,%d]' % (i, j, i, j)
        else:
            ref = Sym.lift(f[k - 36])
            what = 'state block %d = field component' % (k - 36)
        v, m, info = prove_zero(ex, Sym.lift(d42[k]) - ref)
        oid = 'C01/(2)var-eq/component %d' % k
        if v == 'unsat':
            chk.ok(oid, what + '; ' + info.get('by', ''), sample={'component': k, 'meaning': what} if k in (9, 39) else None)
        elif v == 'sat':
            env = model_to_env(m)
            chk.fail(oid, 'variational rhs component %d is not %s at %s' % (k, what, fmt_env(env)), fd_replay_vareq(env, k), env)
        else:
            chk.unknown(oid, str(v))
        v, m, info = prove_zero(ex, Sym.lift(d42c[k]) - Sym.lift(d42[k]))
        (chk.ok if v == 'unsat' else chk.unknown)('C01/(2)var-eq-closure/component %d' % k, '', nontrivial=False)

    # (3) first integrals
    jac2 = extract_nested(en._max_rel_energy_error, '_jacobi', {'mu1': 1 - mu, 'mu2': mu})
    chk.note('_max_rel_energy_error._jacobi is compiled from the nested def in the current source with mu1 = 1 - mu, mu2 = mu')
    with explore.activate(ex):
        sv = np.array(X)
        G = {
            'crtbp_energy': (en.crtbp_energy(sv, mu), 'from hiten.algorithms.common.energy import crtbp_energy', 'crtbp_energy(s, mu)'),
            'kinetic_energy+effective_potential': (en.kinetic_energy(sv) + en.effective_potential(sv, mu),
                                                   'from hiten.algorithms.common.energy import kinetic_energy, effective_potential',
                                                   'kinetic_energy(s) + effective_potential(s, mu)'),
            'energy_to_jacobi(crtbp_energy)': (en.energy_to_jacobi(en.crtbp_energy(sv, mu)),
                                               'from hiten.algorithms.common.energy import crtbp_energy, energy_to_jacobi',
                                               'energy_to_jacobi(crtbp_energy(s, mu))'),
            '_max_rel_energy_error._jacobi': (jac2(*X), None, None),
        }
        # service accessors on a stand-in orbit / libration point holding the symbolic state
        orb = Stub(initial_state=sv, mu=mu)
        e_orb = call_property(svc_orb._OrbitDynamicsService, 'energy', orb)
        orb.energy = e_orb
        j_orb = call_property(svc_orb._OrbitDynamicsService, 'jacobi_constant', orb)
    G['orbit service .energy'] = (e_orb, None, None)
    G['orbit service .jacobi_constant'] = (j_orb, None, None)
    for name, (g, imports, expr) in G.items():
        g = Sym.lift(g)
        dG = Sym.const(0)
        for j in range(6):
            dG = dG + g.diff(X[j]) * Sym.lift(f[j])
        v, m, info = prove_zero(ex, dG)
        oid = 'C01/(3)first-integral/%s' % name
        if v == 'unsat':
            chk.ok(oid, 'sum_i dG/dx_i f_i == 0; ' + info.get('by', ''), sample={'G': repr(g)[:200]} if name == 'crtbp_energy' else None)
        elif v == 'sat':
            env = model_to_env(m)
            if expr is None:
                # replay through the public functions it is built from
                if 'orbit service' in name:
                    imports = 'from hiten.algorithms.common.energy import crtbp_energy, energy_to_jacobi'
                    expr = 'crtbp_energy(s, mu)' if name.endswith('.energy') else 'energy_to_jacobi(crtbp_energy(s, mu))'
                else:
                    imports = 'from hiten.algorithms.common.energy import _max_rel_energy_error'
                    expr = None
            if expr is not None:
                body = fd_replay_energy(env, expr, imports)
            else:
                body = '''
from hiten.algorithms.common.energy import _max_rel_energy_error
from hiten.algorithms.dynamics.rtbp import rtbp_dynsys
from hiten.algorithms.dynamics.base import _propagate_dynsys
s = np.array(%r, dtype=float); mu = %r
sol = _propagate_dynsys(rtbp_dynsys(mu), s, 0.0, 0.05, steps=20, method='adaptive', order=8)
err = _max_rel_energy_error(np.ascontiguousarray(sol.states), mu)
_verdict(err > 1e-8, max_rel_err=float(err))
''' % ([float(env[k]) for k in 'x y z vx vy vz'.split()], float(env['mu']))
            chk.fail(oid, 'd/dt of %s along the field is %s != 0, e.g. at %s' % (name, repr(clear(dG)[0])[:120], fmt_env(env)), body, env)
        else:
            chk.unknown(oid, str(v))

    # (4) relations between the reported quantities
    E = Sym.lift(G['crtbp_energy'][0])
    v, m, info = prove_zero(ex, Sym.lift(G['energy_to_jacobi(crtbp_energy)'][0]) + 2 * E)
    (chk.ok if v == 'unsat' else chk.unknown)('C01/(4)jacobi=-2*energy', info.get('by', ''))
    v, m, info = prove_zero(ex, Sym.lift(en.jacobi_to_energy(en.energy_to_jacobi(E))) - E)
    (chk.ok if v == 'unsat' else chk.unknown)('C01/(4)jacobi_to_energy inverse', info.get('by', ''))
    v, m, info = prove_zero(ex, Sym.lift(e_orb) - E)
    (chk.ok if v == 'unsat' else chk.unknown)('C01/(5)orbit.energy = crtbp_energy(initial_state, mu)', info.get('by', ''))
    v, m, info = prove_zero(ex, Sym.lift(j_orb) + 2 * E)
    (chk.ok if v == 'unsat' else chk.unknown)('C01/(5)orbit.jacobi = -2*orbit.energy', info.get('by', ''))
    J2 = Sym.lift(G['_max_rel_energy_error._jacobi'][0])
    for j in range(6):
        v, m, info = prove_zero(ex, (J2 + 2 * E).diff(X[j]))
        oid = 'C01/(4)second Jacobi formula = -2*energy + const(mu)/d%s' % names[j]
        if v == 'unsat':
            chk.ok(oid, info.get('by', ''))
        elif v == 'sat':
            env = model_to_env(m)
            chk.fail(oid, 'the two Jacobi formulas differ by a state-dependent amount at %s' % fmt_env(env), '''
from hiten.algorithms.common.energy import _max_rel_energy_error, crtbp_energy
s = np.array(%r, dtype=float); mu = %r
s2 = s.copy(); s2[%d] += 0.1
a = _max_rel_energy_error(np.array([s, s2]), mu)
e0, e1 = -2*crtbp_energy(s, mu), -2*crtbp_energy(s2, mu)
x,y,z,vx,vy,vz = s
r1=((x+mu)**2+y*y+z*z)**0.5; r2=((x-1+mu)**2+y*y+z*z)**0.5
C0 = x*x+y*y+2*((1-mu)/r1+mu/r2)-(vx*vx+vy*vy+vz*vz)
b = abs((e1 - e0)) / abs(C0)
_verdict(abs(a - b) > 1e-9, rel_err_formula2=float(a), from_energy=float(b))
''' % ([float(env[k]) for k in names], float(env['mu']), j), env)
        else:
            chk.unknown(oid, str(v))

    # libration-point service: energy of (position, 0, 0, 0)
    px, py = W.vars('Lx Ly')
    with explore.activate(ex):
        lib = Stub(domain_obj=Stub(position=np.array([px, py, 0.0])), mu=mu,
                   make_key=lambda *a: a, get_or_create=lambda key, factory: factory())
        e_lib = call_property(svc_lib._LibrationDynamicsService if hasattr(svc_lib, '_LibrationDynamicsService') else _find_cls(svc_lib, 'energy'), 'energy', lib)
        lib.energy = e_lib
        j_lib = call_property(_find_cls(svc_lib, 'jacobi'), 'jacobi', lib)
    Esub = E.subs({_idx(X[0]): px, _idx(X[1]): py, _idx(X[2]): 0, _idx(X[3]): 0, _idx(X[4]): 0, _idx(X[5]): 0})
    v, m, info = prove_zero(ex, Sym.lift(e_lib) - Esub)
    (chk.ok if v == 'unsat' else chk.unknown)('C01/(5)libration.energy = crtbp_energy((position,0,0,0), mu)', info.get('by', ''))
    v, m, info = prove_zero(ex, Sym.lift(j_lib) + 2 * Sym.lift(e_lib))
    (chk.ok if v == 'unsat' else chk.unknown)('C01/(5)libration.jacobi = -2*libration.energy', info.get('by', ''))

    # ---------------------------------------------------------------- translator validation
    r = rng(chk, 1)
    cases = []
    for t in range(3):
        vals = {n: round(r.uniform(-0.8, 0.8), 3) for n in names}
        vals['x'] = round(r.uniform(0.2, 0.7), 3)
        vals['mu'] = round(r.uniform(0.01, 0.4), 4)
        envq = {k: v for k, v in vals.items()}
        phi_vals = [round(r.uniform(-1, 1), 3) for _ in range(36)]
        for i in range(6):
            for j in range(6):
                envq['P%d%d' % (i, j)] = phi_vals[6 * i + j]
        sv = [vals[n] for n in names]
        cases.append(('_crtbp_accel', '_crtbp_accel(np.array(%r), %r)' % (sv, vals['mu']), [Sym.lift(e).evalf(envq) for e in f], vals))
        cases.append(('_jacobian_crtbp', '_jacobian_crtbp(%r, %r, %r, %r)' % (sv[0], sv[1], sv[2], vals['mu']), [Sym.lift(e).evalf(envq) for e in F.ravel()], vals))
        cases.append(('_var_equations', '_var_equations(0.0, np.array(%r), %r)' % (phi_vals + sv, vals['mu']), [Sym.lift(e).evalf(envq) for e in d42], vals))
        cases.append(('crtbp_energy', 'crtbp_energy(np.array(%r), %r)' % (sv, vals['mu']), [E.evalf(envq)], vals))
        cases.append(('_max_rel_energy_error', '_max_rel_energy_error(np.array([%r, %r]), %r)' % (sv, [v + 0.01 for v in sv], vals['mu']),
                      [_rel(J2, envq, names)], vals))
    errs = validate.compare(chk, 'from hiten.algorithms.dynamics.rtbp import _crtbp_accel, _jacobian_crtbp, _var_equations\n'
                                 'from hiten.algorithms.common.energy import crtbp_energy, _max_rel_energy_error', cases)
    for name, err, expr in errs:
        chk.inconclusive.append('real build raised in validation of %s: %s' % (name, err))

    chk.absorb(ex)
    return chk.finish()


def _rel(J2, envq, names):
    e2 = dict(envq)
    for n in names:
        e2[n] = envq[n] + 0.01
    c0, c1 = J2.evalf(envq), J2.evalf(e2)
    return abs(c1 - c0) / abs(c0)


def _idx(v):
    (m, _), = v.t.items()
    return m[0][0]


def _find_cls(mod, prop):
    import inspect as _i
    for n, c in vars(mod).items():
        if _i.isclass(c) and c.__module__ == mod.__name__ and prop in c.__dict__ and isinstance(c.__dict__[prop], property):
            return c
    raise LookupError(prop)


if __name__ == '__main__':
    sys.exit(main())

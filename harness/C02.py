"""C02 — Runge–Kutta order conditions, embedded estimators, dense output, Hamiltonian twins, zero-span shortcut."""
from __future__ import annotations

import sys
import time
from fractions import Fraction

from harness.common import *  # noqa: F401,F403
from harness.common import np, Explorer, Check, Sym, W, prove_zero, prove_small, model_to_env, fmt_env, rng, explore, Stub, opaque
from engine import bseries as bs
from engine.bseries import BS, EMPTY, f_apply, trees_of_order, order as torder, gamma, sigma, tree_str

PID = 'C02'
EPS = Fraction(1, 10 ** 13)


def F(t, y):
    """B-series derivative operator as the right-hand side handed to the real kernels."""
    F.calls.append((t, y[0]))
    return np.array([f_apply(y[0])])


F.calls = []


def coeff_residuals(Y, h, upto, scale_theta=None):
    """[(tree, residual Sym)] for |t| <= upto: a(t) - (theta*h)^{|t|}/gamma(t)."""
    out = []
    for n in range(1, upto + 1):
        for t in trees_of_order(n):
            base = (h if scale_theta is None else h * scale_theta) ** n * Fraction(1, gamma(t))
            out.append((t, Y.coeff(t) - base))
    return out


def check_small(chk, ex, oid, residuals, box, what, replay=None, known_model=None, eps=None):
    eps = eps or EPS
    """One obligation: sum_t |r_t| <= eps on the box (each r_t a polynomial in h, theta)."""
    worst = (Fraction(0), None)
    tot = Sym({})
    k = 0
    for t, r in residuals:
        # weight each tree by a distinct fresh symbol F_t in [-1, 1]: sum_t r_t F_t / sigma(t)
        k += 1
        ft = W.var('F_%s' % tree_str(t))
        box.setdefault('F_%s' % tree_str(t), (-1, 1))
        tot = tot + r * ft * Fraction(1, sigma(t))
        mc = r.max_abs_coeff() if isinstance(r, Sym) else abs(Fraction(r))
        if mc > worst[0]:
            worst = (mc, t)
    v, m, info = prove_small(ex, tot, eps, box)
    detail = '%s: %d trees, worst |coefficient residual| %.3e at tree %s; %s' % (what, len(residuals), float(worst[0]), tree_str(worst[1]) if worst[1] is not None else '-', info.get('by', ''))
    if v == 'unsat':
        chk.ok(oid, detail, sample={'trees': len(residuals), 'worst_residual': float(worst[0])})
        return True
    if v == 'sat' or worst[0] > eps:
        chk.fail(oid, detail, replay(worst[1]) if replay else None, {'tree': tree_str(worst[1]), 'residual': float(worst[0])})
        return False
    chk.unknown(oid, detail)
    return False


def tree_system_replay(kind, order_arg, tree, want_desc, dense_theta=None):
    """Butcher's tree system z_tau' = 1, z_[t1..tm]' = prod z_ti, z(0) = 0 integrated for one step h = 1 with the real
    compiled integrator isolates the elementary weight of `tree`: z_tree(1) must be 1/gamma(tree)."""
    subs = []

    def collect(t):
        if t not in subs:
            for c in t:
                collect(c)
            subs.append(t)
    collect(tree)
    idx = {t: i for i, t in enumerate(subs)}
    lines = ['    d[%d] = %s' % (idx[t], ' * '.join('y[%d]' % idx[c] for c in t) or '1.0') for t in subs]
    g = gamma(tree)
    return '''
from hiten.algorithms.integrators.rk import RungeKutta, AdaptiveRK, FixedRK
from hiten.algorithms.dynamics.rhs import create_rhs_system
import numba
def rhs(t, y):
    d = np.zeros(%d)
%s
    return d
sysm = create_rhs_system(rhs, dim=%d, name='tree-system')
integ = %s
sol = integ.integrate(sysm, np.zeros(%d), np.array([0.0, 1.0]))
got = float(sol.states[-1][%d]); want = 1.0 / %d
# a fixed-step scheme takes exactly one step h = 1, so the component is the elementary weight sum b_i Phi_i(tree)
_verdict(abs(got - want) > 1e-9, elementary_weight=got, one_over_gamma=want, tree=%r)
''' % (len(subs), '\n'.join(lines), len(subs), kind % order_arg, len(subs), idx[tree], g, tree_str(tree))


def run_fixed(chk, ex, rkmod, order_p, h):
    integ = rkmod.RungeKutta(order=order_p)
    tag = 'fixed/order=%d(%s)' % (order_p, type(integ).__name__)
    if integ.order != order_p:
        chk.fail('C02/(1)%s/declared-order' % tag, 'RungeKutta(order=%d) returns a scheme declaring order %s' % (order_p, integ.order), None)
    A, B, C = integ._A, integ._B_HIGH, integ._C
    F.calls = []
    y0 = np.array([BS.identity()])
    t = W.var('t0')
    y_high, y_low, err = rkmod.rk_embedded_step_jit_kernel(F, t, y0, h, A, B, np.empty(0), C, False)
    Y = y_high[0]
    # time arguments consistent with the stage values (non-autonomous right-hand sides)
    tres = []
    for targ, yst in F.calls:
        tres.append(((), (Sym.lift(targ) - t) - yst.coeff(())))
    check_small(chk, ex, 'C02/(1)%s/stage-times' % tag, tres, {'h': (0, 1)}, 'time passed to f minus the stage abscissa sum_j a_ij h')
    ok = check_small(chk, ex, 'C02/(1)%s/order-conditions<=%d' % (tag, order_p), coeff_residuals(Y, h, order_p), {'h': (0, 1)},
                     'B-series of one step of the real kernel vs exact flow, trees of order <= %d' % order_p,
                     replay=lambda tr: tree_system_replay('RungeKutta(order=%d)', order_p, tr, ''))
    # sharpness (information + vacuity guard): order p+1 must fail, otherwise the harness compares nothing
    if order_p < bs.MAX_ORDER[0]:
        nxt = [r for r in coeff_residuals(Y, h, order_p + 1) if torder(r[0]) == order_p + 1]
        mx = max((r.max_abs_coeff() for _, r in nxt), default=Fraction(0))
        if mx > EPS:
            chk.vacuity_witness('C02/%s' % tag, {'first_violated_order': order_p + 1, 'residual': float(mx)})
        else:
            chk.note('%s also satisfies all conditions of order %d' % (tag, order_p + 1))
    return integ, Y


def run_rk45(chk, ex, rkmod, h, theta):
    integ = rkmod.AdaptiveRK(order=5)
    tag = 'adaptive/order=5(%s)' % type(integ).__name__
    F.calls = []
    y0 = np.array([BS.identity()])
    t = W.var('t0')
    y_high, y_low, err, K = rkmod.rk45_step_jit_kernel(F, t, y0, h, integ._A, integ._B_HIGH, integ._C, integ._E)
    tres = [((), (Sym.lift(targ) - t) - yst.coeff(())) for targ, yst in F.calls]
    check_small(chk, ex, 'C02/(1)%s/stage-times' % tag, tres, {'h': (0, 1)}, 'time passed to f minus stage abscissa')
    check_small(chk, ex, 'C02/(1)%s/order-conditions<=5' % tag, coeff_residuals(y_high[0], h, 5), {'h': (0, 1)}, 'B-series of rk45_step_jit_kernel vs exact flow',
                replay=lambda tr: tree_system_replay('AdaptiveRK(order=%d, rtol=1e-3, atol=1e3)', 5, tr, ''))
    # (2) the error estimate is y5 - y4: it annihilates all trees up to order 4 and not all of order 5
    eres = [(tr, err[0].coeff(tr)) for n in range(1, 5) for tr in trees_of_order(n)]
    check_small(chk, ex, 'C02/(2)%s/estimator-annihilates<=4' % tag, eres, {'h': (0, 1)}, 'error estimate has no B-series term of order <= 4')
    e5 = max((err[0].coeff(tr).max_abs_coeff() for tr in trees_of_order(5)), default=Fraction(0))
    if e5 > EPS:
        chk.ok('C02/(2)%s/estimator-sees-order-5' % tag, 'largest order-5 coefficient of the estimate %.3e (genuine O(h^5) quantity)' % float(e5))
    else:
        chk.fail('C02/(2)%s/estimator-sees-order-5' % tag, 'the error estimate vanishes to order 5: it cannot control the step', None)
    # y_low = y_high - err is a 4th order solution
    check_small(chk, ex, 'C02/(2)%s/embedded-solution-order-4' % tag, coeff_residuals(y_low[0], h, 4), {'h': (0, 1)}, 'y_low vs exact flow, order <= 4')
    # (3) dense output, theta symbolic
    P = rkmod.RK45_P
    Q = rkmod._rk45_build_Q_cache(K, P, 1)
    yd = rkmod._rk45_eval_dense(y0, Q, P, theta, h)
    check_small(chk, ex, 'C02/(3)%s/dense-output<=4' % tag, coeff_residuals(yd[0], h, 4, scale_theta=theta), {'h': (0, 1), 'theta': (0, 1)},
                'interpolant(theta) vs exact flow at theta*h for all theta in [0,1], trees of order <= 4')
    ends = []
    y_at0 = rkmod._rk45_eval_dense(y0, Q, P, Sym.const(0), h)[0]
    y_at1 = rkmod._rk45_eval_dense(y0, Q, P, Sym.const(1), h)[0]
    for n in range(1, bs.MAX_ORDER[0] + 1):
        for tr in trees_of_order(n):
            ends.append((tr, y_at0.coeff(tr)))
            ends.append((tr, y_at1.coeff(tr) - y_high[0].coeff(tr)))
    check_small(chk, ex, 'C02/(3)%s/dense-endpoints' % tag, ends, {'h': (0, 1)}, 'interp(0) = y_old and interp(1) = y_new (all trees up to order 8)')
    return integ, y_high[0], K


def run_dop853(chk, ex, rkmod, h, theta):
    integ = rkmod.AdaptiveRK(order=8)
    tag = 'adaptive/order=8(%s)' % type(integ).__name__
    F.calls = []
    y0 = np.array([BS.identity()])
    t = W.var('t0')
    y_high, y_low, err_vec, err5, err3, K = rkmod.dop853_step_jit_kernel(F, t, y0, h, integ._A, integ._B_HIGH, integ._C, integ._E5, integ._E3)
    tres = [((), (Sym.lift(targ) - t) - yst.coeff(())) for targ, yst in F.calls]
    check_small(chk, ex, 'C02/(1)%s/stage-times' % tag, tres, {'h': (0, 1)}, 'time passed to f minus stage abscissa')
    check_small(chk, ex, 'C02/(1)%s/order-conditions<=8' % tag, coeff_residuals(y_high[0], h, 8), {'h': (0, 1)}, 'B-series of dop853_step_jit_kernel vs exact flow (200 trees)',
                replay=lambda tr: tree_system_replay('AdaptiveRK(order=%d, rtol=1e-3, atol=1e3)', 8, tr, ''))
    for name, e, q in (('E5', err5, 5), ('E3', err3, 3)):
        eres = [(tr, e[0].coeff(tr)) for n in range(1, q + 1) for tr in trees_of_order(n)]
        check_small(chk, ex, 'C02/(2)%s/%s-annihilates<=%d' % (tag, name, q), eres, {'h': (0, 1)}, '%s estimate has no term of order <= %d' % (name, q))
        nx = max((e[0].coeff(tr).max_abs_coeff() for tr in trees_of_order(q + 1)), default=Fraction(0))
        if nx > EPS:
            chk.ok('C02/(2)%s/%s-sees-order-%d' % (tag, name, q + 1), 'largest order-%d coefficient %.3e' % (q + 1, float(nx)))
        else:
            chk.fail('C02/(2)%s/%s-sees-order-%d' % (tag, name, q + 1), 'estimate vanishes one order too far', None)
    # (3) dense output through the real cache builder (extra stages call f again)
    f_old = F(t, y0)
    f_new = F(t + h, y_high)
    Fc = rkmod._dop853_build_dense_cache(F, t, y0, f_old, y_high, f_new, h, K, rkmod.DOP853_A, rkmod.DOP853_C, rkmod.DOP853_D,
                                         rkmod.DOP853_N_STAGES_EXTENDED, rkmod.DOP853_INTERPOLATOR_POWER)
    yd = rkmod._dop853_eval_dense(y0, Fc, rkmod.DOP853_INTERPOLATOR_POWER, theta)
    check_small(chk, ex, 'C02/(3)%s/dense-output<=7' % tag, coeff_residuals(yd[0], h, 7, scale_theta=theta), {'h': (0, 1), 'theta': (0, 1)},
                'interpolant(theta) vs exact flow at theta*h for all theta in [0,1], trees of order <= 7 (eps 1e-10: the D table has entries of size 1e2 stored as doubles)',
                eps=Fraction(1, 10 ** 10))
    ends = []
    y_at0 = rkmod._dop853_eval_dense(y0, Fc, rkmod.DOP853_INTERPOLATOR_POWER, Sym.const(0))[0]
    y_at1 = rkmod._dop853_eval_dense(y0, Fc, rkmod.DOP853_INTERPOLATOR_POWER, Sym.const(1))[0]
    for n in range(1, bs.MAX_ORDER[0] + 1):
        for tr in trees_of_order(n):
            ends.append((tr, y_at0.coeff(tr)))
            ends.append((tr, y_at1.coeff(tr) - y_high[0].coeff(tr)))
    check_small(chk, ex, 'C02/(3)%s/dense-endpoints' % tag, ends, {'h': (0, 1)}, 'interp(0) = y_old and interp(1) = y_new')
    return integ, y_high[0], K, Fc


def same_bs(a, b):
    keys = set(a.d) | set(b.d)
    return all(not normal(a.coeff(k) - b.coeff(k)).t for k in keys)


def twins(chk, rkmod, h, theta, fixed, rk45, dop):
    """(4) each *_ham kernel has the same B-series as its generic twin when both use the same vector field."""
    saved = rkmod._hamiltonian_rhs
    rkmod._hamiltonian_rhs = lambda y, jac_H, clmo_H, n_dof: np.array([f_apply(y[0])])
    t = W.var('t0')
    y0 = np.array([BS.identity()])
    try:
        for p_, (integ, Yg) in fixed.items():
            yh, yl, er = rkmod.rk_embedded_step_ham_jit_kernel(t, y0, h, integ._A, integ._B_HIGH, np.empty(0), integ._C, False, None, None, 1)
            ok = same_bs(yh[0], Yg)
            (chk.ok if ok else (lambda o, d: chk.fail(o, d, None)))('C02/(4)twin/rk_embedded_step_ham order %d' % p_, 'B-series identical to the generic kernel (all %d trees)' % len(Yg.d))
        integ, Yg, Kg = rk45
        yh, yl, er, Kh = rkmod.rk45_step_ham_jit_kernel(t, y0, h, integ._A, integ._B_HIGH, integ._C, integ._E, None, None, 1)
        ok = same_bs(yh[0], Yg) and all(same_bs(Kh[i, 0], Kg[i, 0]) for i in range(Kg.shape[0]))
        (chk.ok if ok else (lambda o, d: chk.fail(o, d, None)))('C02/(4)twin/rk45_step_ham', 'y_high and all stage derivatives identical to the generic kernel')
        integ, Yg, Kg, Fg = dop
        out = rkmod.dop853_step_ham_jit_kernel(t, y0, h, integ._A, integ._B_HIGH, integ._C, integ._E5, integ._E3, None, None, 1)
        yh, Kh = out[0], out[-1]
        ok = same_bs(yh[0], Yg) and all(same_bs(Kh[i, 0], Kg[i, 0]) for i in range(Kg.shape[0]))
        (chk.ok if ok else (lambda o, d: chk.fail(o, d, None)))('C02/(4)twin/dop853_step_ham', 'y_high and all stage derivatives identical to the generic kernel')
        f_old = np.array([f_apply(y0[0])])
        f_new = np.array([f_apply(yh[0])])
        Fh = rkmod._dop853_build_dense_cache_ham(t, y0, f_old, yh, f_new, h, Kh, rkmod.DOP853_A, rkmod.DOP853_C, rkmod.DOP853_D,
                                                 rkmod.DOP853_N_STAGES_EXTENDED, rkmod.DOP853_INTERPOLATOR_POWER, None, None, 1)
        ok = all(same_bs(Fh[i, 0], Fg[i, 0]) for i in range(Fg.shape[0]))
        (chk.ok if ok else (lambda o, d: chk.fail(o, d, None)))('C02/(4)twin/dop853_build_dense_cache_ham', 'dense-output cache identical to the generic builder')
    finally:
        rkmod._hamiltonian_rhs = saved


def cm_copy(chk, ex, fixed, h):
    """(4) the second copy of the fixed-step stepping used by the centre-manifold map."""
    import hiten.algorithms.poincare.centermanifold.backend as cmb
    chk.encode(cmb._integrate_rk_ham, cmb._get_rk_coefficients)
    saved = (cmb._eval_dH_dP, cmb._eval_dH_dQ)

    def dHdP(Q, P, jac_H, clmo_H):
        assert same_bs(Q[0], P[0])
        return np.array([f_apply(Q[0])])

    def dHdQ(Q, P, jac_H, clmo_H):
        return np.array([-f_apply(Q[0])])
    cmb._eval_dH_dP, cmb._eval_dH_dQ = dHdP, dHdQ
    try:
        for p_, (integ, Yg) in fixed.items():
            A, B, C = cmb._get_rk_coefficients(p_)
            same_tab = A is integ._A and B is integ._B_HIGH and C is integ._C
            t0 = W.var('t0')
            traj = cmb._integrate_rk_ham(np.array([BS.identity(), BS.identity()]), np.array([t0, t0 + h]), A, B, C, None, None)
            ok = same_bs(traj[1, 0], Yg) and same_bs(traj[1, 1], Yg)
            (chk.ok if (ok and same_tab) else (lambda o, d: chk.fail(o, d, None)))(
                'C02/(4)twin/centre-manifold _integrate_rk_ham order %d' % p_, 'same tableau objects as RungeKutta(order=%d) and identical B-series for both state blocks' % p_)
    finally:
        cmb._eval_dH_dP, cmb._eval_dH_dQ = saved


def driver_chain(chk, ex, rkmod):
    """_integrate_fixed_rk on a 3-node symbolic grid: two chained steps with h_k = t_{k+1} - t_k reproduce the exact flow
    over t2 - t0 to the order of the scheme (checks the driver: step sizes, chaining, first sample, derivatives)."""
    old = bs.MAX_ORDER[0]
    bs.MAX_ORDER[0] = 4
    try:
        integ = rkmod.RungeKutta(order=4)
        h1, h2, t0 = W.var('h1'), W.var('h2'), W.var('t0')
        tv = np.array([t0, t0 + h1, t0 + h1 + h2])
        F.calls = []
        states, derivs = type(integ)._integrate_fixed_rk(F, np.array([BS.identity()]), tv, integ._A, integ._B_HIGH, np.empty(0), integ._C, False)
        res = []
        first_ok = same_bs(states[0, 0], BS.identity())
        for n in range(1, 5):
            for tr in trees_of_order(n):
                res.append((tr, states[2, 0].coeff(tr) - (h1 + h2) ** n * Fraction(1, gamma(tr))))
        # only total degree <= 4 terms are claimed: drop higher-degree monomials
        low = []
        for tr, r in res:
            low.append((tr, Sym({m: c for m, c in r.t.items() if sum(e for _, e in m) <= 4})))
        check_small(chk, ex, 'C02/(1)driver/_integrate_fixed_rk chains steps', low, {'h1': (0, 1), 'h2': (0, 1)},
                    'two chained RK4 steps over a non-uniform 3-node grid vs exact flow over t2-t0, total degree <= 4')
        (chk.ok if first_ok else (lambda o, d: chk.fail(o, d, None)))('C02/(1)driver/first sample is y0', 'states[0] = y0')
        dok = all(same_bs(derivs[k, 0], f_apply(states[k, 0])) for k in range(3))
        (chk.ok if dok else (lambda o, d: chk.fail(o, d, None)))('C02/(1)driver/derivatives = f(state)', 'derivs[k] = f(t_k, states[k])')
    finally:
        bs.MAX_ORDER[0] = old


def hermite_dense(chk, ex, rkmod, fixed, h, theta):
    """(3) cubic Hermite interpolant used by the fixed-step event refinement: order 3 in theta*h."""
    integ, Y = fixed[4]
    y0 = np.array([BS.identity()])
    y1 = np.array([Y])
    f0 = np.array([f_apply(y0[0])])
    f1 = np.array([f_apply(Y)])
    yd = rkmod._hermite_eval_dense(y0, f0, y1, f1, theta, h)
    check_small(chk, ex, 'C02/(3)fixed/hermite-dense<=3', coeff_residuals(yd[0], h, 3, scale_theta=theta), {'h': (0, 1), 'theta': (0, 1)},
                'Hermite interpolant between two RK4 nodes vs exact flow at theta*h, trees of order <= 3')


def zero_span(chk, rkmod):
    """(6) the constant-solution shortcut may only fire for a genuinely zero span."""
    import hiten.algorithms.integrators.base as ib
    chk.encode(ib._Integrator._maybe_constant_solution)
    t0, tf = W.vars('ta tb')
    y = [W.var('ya')]
    ex = Explorer()
    sysm = Stub(rhs=lambda t, y_: np.array([opaque('f', t, y_[0])]), dim=1)
    integ = rkmod.RungeKutta(order=4)

    def go():
        return integ._maybe_constant_solution(sysm, np.array(y), np.array([t0, tf]))
    paths = ex.run(go)
    chk.absorb(ex)
    for n, p in enumerate(paths):
        oid = 'C02/(6)zero-span/path %d' % n
        if p.value is None:
            chk.ok(oid, 'no shortcut on this path', nontrivial=False)
            continue
        with explore.activate(ex):
            goal = (tf - t0) == 0
        v, m = ex.prove(p, goal)
        if v == 'unsat':
            chk.ok(oid, 'shortcut taken only when t0 == tf')
        elif v == 'sat':
            env = model_to_env(m)
            if any(o['id'] == 'C02/(6)zero-span' for o in chk.obl):
                chk.obl.append({'id': oid, 'verdict': 'sat', 'detail': 'same defect on another sign path'})
                continue
            chk.fail('C02/(6)zero-span', 'the constant solution is returned for a non-zero span, e.g. %s' % fmt_env(env), '''
from hiten.algorithms.integrators.rk import RungeKutta
from hiten.algorithms.dynamics.rhs import create_rhs_system
sysm = create_rhs_system(lambda t, y: np.array([1.0]), dim=1, name='unit-speed')
ta, tb = %r, %r
if ta == tb or abs(tb - ta) < 1e-300: tb = ta + abs(ta) * 5e-6 + 5e-9
sol = RungeKutta(order=4).integrate(sysm, np.array([0.0]), np.array([ta, tb]))
_verdict(tb != ta and sol.states[-1][0] == 0.0, span=tb - ta, final_state=float(sol.states[-1][0]), exact=tb - ta)
''' % (float(env.get('ta', 0)), float(env.get('tb', 0))), env)
        else:
            chk.unknown(oid, v)


def helper_contracts(chk):
    """(5) the step-size helpers satisfy, for all real inputs, the contracts the driver skeleton relies on."""
    import hiten.algorithms.integrators.utils as U
    from harness.common import And
    chk.encode(U._clamp_step, U._adjust_step_to_endpoint, U._select_initial_step, U._pi_accept_factor, U._pi_reject_factor, U._error_scale)
    h, hmax, hmin, t, te, d0, d1, en, ep, rtol, atol, ya, yb = W.vars('hh hmax hmin tt tend d0 d1 errn errp rtol atol ya yb')
    lo, hi = Fraction(1, 5), 10

    def run(name, pre, fn, goal_fn):
        ex = Explorer(max_paths=500)
        with explore.activate(ex):
            for c in pre():
                ex.assume(c)
        paths = ex.run(fn)
        chk.absorb(ex)
        bad = None
        for p in paths:
            if p.exc is not None:
                bad = ('raised %r' % (p.exc,), None)
                break
            with explore.activate(ex):
                goals = goal_fn(p.value)
            v, m, k = ex.prove_all(p, goals)
            if v != 'unsat':
                bad = ('goal %d: %s' % (k, v), m)
                break
        oid = 'C02/(5)helper/%s' % name
        if bad is None:
            chk.ok(oid, '%d paths, contract holds on each' % len(paths))
        else:
            chk.fail(oid, '%s at %s' % (bad[0], fmt_env(model_to_env(bad[1])) if bad[1] is not None else ''), None, model_to_env(bad[1]) if bad[1] is not None else None)

    run('_clamp_step in [min,max]', lambda: [hmin <= hmax], lambda: U._clamp_step(h, hmax, hmin), lambda r: [Sym.lift(r) >= hmin, Sym.lift(r) <= hmax])
    run('_adjust_step_to_endpoint never passes the end', lambda: [t < te, h > 0], lambda: U._adjust_step_to_endpoint(t, h, te),
        lambda r: [Sym.lift(r) > 0, (t + r) <= te, Sym.lift(r) <= h])
    run('_select_initial_step in [min,max]', lambda: [hmin <= hmax, hmin > 0, d0 >= 0, d1 >= 0], lambda: U._select_initial_step(d0, d1, hmin, hmax),
        lambda r: [Sym.lift(r) >= hmin, Sym.lift(r) <= hmax])
    run('_pi_accept_factor in [0.2,10]', lambda: [en >= 0], lambda: U._pi_accept_factor(en, ep, 5), lambda r: [Sym.lift(r) >= lo, Sym.lift(r) <= hi])
    run('_pi_reject_factor in [0.2,10]', lambda: [], lambda: U._pi_reject_factor(en, 5), lambda r: [Sym.lift(r) >= lo, Sym.lift(r) <= hi])
    run('_error_scale > 0', lambda: [atol > 0, rtol >= 0], lambda: U._error_scale(np.array([ya]), np.array([yb]), rtol, atol),
        lambda r: [Sym.lift(r[0]) >= atol, Sym.lift(r[0]) >= atol + rtol * ya, Sym.lift(r[0]) >= atol - rtol * ya, Sym.lift(r[0]) >= atol + rtol * yb, Sym.lift(r[0]) >= atol - rtol * yb])


def dense_callsites(chk, scheme, ham, budget):
    """The adaptive drivers evaluate the dense output of the RIGHT accepted step with the RIGHT arguments: for every requested
    time t_q the interpolant of the segment [t_j, t_j+1] containing it is used, built from (t_j, y_j, f(t_j, y_j), y_j+1, f_j+1,
    h_j, K_j) and evaluated at (t_q - t_j)/h_j.  The right-hand side is time dependent (uninterpreted in t and y)."""
    import hiten.algorithms.integrators.rk as rk
    from harness import drivers as D
    from harness.drivers import same
    from harness.common import And, Or
    tr = D.Tracker(1, 2)
    tA, tM, tB = W.var('tA'), W.var('tM'), W.var('tB')
    y0 = np.array([W.var('y0_0')])
    rtol, atol, hmax, hmin = W.vars('rtol atol max_step min_step')
    tag = '%s%s' % (scheme, '_ham' if ham else '')
    ex = Explorer(max_paths=4000, time_budget_s=budget, max_decisions=250)
    ex.abs_by_branch = False
    with explore.activate(ex):
        for c in (tA < tM, tM < tB, rtol > 0, atol > 0, hmin > 0, hmin <= hmax):
            ex.assume(c)
    t_eval = np.array([tA, tM, tB])
    cls = rk._RK45 if scheme == 'rk45' else rk._DOP853

    def go():
        tr.reset()
        with D.stubbed(rk, tr, real_dense=False, autonomous=False) as f:
            try:
                if scheme == 'rk45':
                    kw = dict(y0=y0, t_eval=t_eval, A=cls._A, B_HIGH=cls._B_HIGH, C=cls._C, E=cls._E, P=rk.RK45_P, rtol=rtol, atol=atol, max_step=hmax, min_step=hmin, order=5)
                    out = cls._integrate_rk45_ham(jac_H=None, clmo_H=None, n_dof=1, **kw) if ham else cls._integrate_rk45(f=f, **kw)
                else:
                    kw = dict(y0=y0, t_eval=t_eval, A=cls._A, B_HIGH=cls._B_HIGH, C=cls._C, E5=cls._E5, E3=cls._E3, D=rk.DOP853_D, n_stages_extended=rk.DOP853_N_STAGES_EXTENDED,
                              interpolator_power=rk.DOP853_INTERPOLATOR_POWER, A_full=rk.DOP853_A, C_full=rk.DOP853_C, rtol=rtol, atol=atol, max_step=hmax, min_step=hmin, order=8)
                    out = cls._integrate_dop853_ham(jac_H=None, clmo_H=None, n_dof=1, **kw) if ham else cls._integrate_dop853(f=f, **kw)
                return ('done', out, tr.snapshot())
            except D.StopUnwinding:
                return ('cut', None, tr.snapshot())
    paths = ex.run(go)
    ndone = 0
    for n, p in enumerate(paths):
        base = 'C02/(3)dense-callsite/%s/path %d' % (tag, n)
        if isinstance(p.exc, explore.PathAbort):
            continue
        if p.exc is not None:
            chk.fail(base, 'raised %r' % (p.exc,), None)
            continue
        status, out, snap = p.value
        if status != 'done':
            continue
        ndone += 1
        steps = snap['steps']
        acc = []
        for k, s_ in enumerate(steps):
            nxt = steps[k + 1] if k + 1 < len(steps) else None
            if nxt is None or (same(nxt['t'], Sym.lift(s_['t']) + s_['h']) and same(nxt['y'], s_['yh'])):
                acc.append(s_)
        ts = [Sym.lift(tA)] + [Sym.lift(s_['t']) + s_['h'] for s_ in acc]
        ys = [y0] + [s_['yh'] for s_ in acc]
        evals = [d for d in snap['dense'] if d[0].startswith('eval')]
        problems = []
        goals = []
        if len(evals) != 3:
            problems.append('%d dense evaluations for 3 requested times' % len(evals))
        with explore.activate(ex):
            for idx, (kind, a) in enumerate(evals[:3]):
                tq = Sym.lift(t_eval[idx])
                js = [j for j in range(len(acc)) if same(a['y_old'], ys[j])]
                if not js:
                    problems.append('output %d interpolates from a state that is no accepted node' % idx)
                    continue
                j = js[0]
                hseg = ts[j + 1] - ts[j]
                goals += [tq >= ts[j], tq <= ts[j + 1]]
                goals.append((Sym.lift(a['x']) * hseg - (tq - ts[j])) == 0)
                if kind == 'eval45':
                    goals.append((Sym.lift(a['hseg']) - hseg) == 0)
                    # K of the accepted step j: the stub kernel's K atoms are functions of (t_j, y_j, h_j)
                    if not same(a['K'][0, 0], opaque('S_K0_0', *D.flat_args(acc[j]['t'], acc[j]['y'], acc[j]['h']))):
                        problems.append('output %d uses the stage derivatives of another step' % idx)
                else:
                    c = a['cache']
                    if not same(a['K'][0, 0], opaque('S_K0_0', *D.flat_args(acc[j]['t'], acc[j]['y'], acc[j]['h']))):
                        problems.append('output %d uses the stage derivatives of another step' % idx)
                    if not (same(c['t_old'], ts[j]) and same(c['y_old'], ys[j]) and same(c['y_new'], ys[j + 1]) and same(c['hseg'], hseg)):
                        problems.append('output %d: dense cache built with t_old=%r hseg=%r instead of the bracketing step (t_j=%r, h_j=%r)' % (idx, c['t_old'], c['hseg'], ts[j], hseg))
                    if not ham:
                        fj = D.vec('F', 1, *D.flat_args(ts[j], ys[j]))
                        fj1 = D.vec('F', 1, *D.flat_args(ts[j + 1], ys[j + 1]))
                        if not (same(c['f_old'], fj) and same(c['f_new'], fj1)):
                            problems.append('output %d: end-point derivatives are not f(t_j, y_j), f(t_j+1, y_j+1)' % idx)
        if problems:
            if not any(o['id'] == 'C02/(3)dense-callsite/%s' % tag for o in chk.obl):
                chk.fail('C02/(3)dense-callsite/%s' % tag, '; '.join(problems[:2]), _replay_dense_nonautonomous(scheme), None)
            else:
                chk.obl.append({'id': base, 'verdict': 'sat', 'detail': problems[0]})
            continue
        v, m, k = ex.prove_all(p, goals)
        if v == 'unsat':
            chk.ok(base, '%d accepted steps: every requested time is interpolated on its own bracketing step with that step\'s data and fraction (t_q - t_j)/h_j' % len(acc),
                   sample={'accepted': len(acc)} if n in (0, 6) else None)
        elif v == 'sat':
            chk.fail(base, 'dense-output call-site goal %d fails at %s' % (k, fmt_env(model_to_env(m))), _replay_dense_nonautonomous(scheme), model_to_env(m))
        else:
            chk.unknown(base, v)
    st = chk.absorb(ex)
    chk.note('dense call sites %s: %d paths, %d terminated within 2 kernel calls' % (tag, st['paths'], ndone))


def _replay_dense_nonautonomous(scheme):
    return '''
from hiten.algorithms.integrators.rk import AdaptiveRK
from hiten.algorithms.dynamics.rhs import create_rhs_system
import numba
@numba.njit
def rhs(t, y):
    return np.array([np.cos(3.0 * t) * 3.0 + 0.0 * y[0]])       # y = sin(3 t), explicitly time dependent
sysm = create_rhs_system(rhs, dim=1, name='forced')
tv = np.linspace(0.0, 4.0, 201)
sol = AdaptiveRK(order=%d, rtol=1e-9, atol=1e-9).integrate(sysm, np.array([0.0]), tv)
err = float(np.max(np.abs(sol.states[:, 0] - np.sin(3.0 * tv))))
_verdict(err > 1e-5, max_dense_output_error=err, requested_tolerance=1e-9)
''' % (5 if scheme == 'rk45' else 8)


def _replay_general():
    """General confirmation on the compiled build: a non-autonomous, nonlinear 2-d problem with a tight-tolerance reference;
    observed order of every fixed-step scheme, and tolerance-proportional error (end value and dense output on a non-uniform
    output grid) of both adaptive schemes."""
    return '''
from hiten.algorithms.integrators.rk import AdaptiveRK, RungeKutta
from hiten.algorithms.dynamics.rhs import create_rhs_system
import numba
@numba.njit
def rhs(t, y):
    return np.array([y[1] + 0.3 * np.sin(2.0 * t) * y[0], -np.sin(y[0]) + 0.2 * np.cos(t) * y[1] * y[1] + 0.1 * t])
sysm = create_rhs_system(rhs, dim=2, name="forced pendulum")
y0 = np.array([0.4, -0.3]); T = 2.0
tout = np.array([0.0, 0.13, 0.5, 0.51, 0.9, 1.37, 1.7, 2.0])
ref = AdaptiveRK(order=8, rtol=1e-13, atol=1e-13).integrate(sysm, y0, np.linspace(0.0, T, 4001))
ref_at = lambda t: np.array([np.interp(t, ref.times, ref.states[:, i]) for i in range(2)])
bad = {}
for order, (n1, n2) in ((4, (40, 80)), (6, (20, 40)), (8, (10, 20))):
    e = []
    for n in (n1, n2):
        sol = RungeKutta(order=order).integrate(sysm, y0, np.linspace(0.0, T, n + 1))
        e.append(float(np.max(np.abs(sol.states[-1] - ref.states[-1]))))
    obs = float(np.log2(e[0] / max(e[1], 1e-300)))
    if e[1] > 1e-12 and obs < order - 0.5: bad["fixed_order_%d" % order] = "observed order %.2f (errors %.2e, %.2e)" % (obs, e[0], e[1])
for order in (5, 8):
    for tol in (1e-6, 1e-9):
        sol = AdaptiveRK(order=order, rtol=tol, atol=tol).integrate(sysm, y0, tout)
        if not np.allclose(sol.times, tout, rtol=0, atol=1e-14): bad["adaptive_%d_grid" % order] = "returned times are not the requested output times"; continue
        err = max(float(np.max(np.abs(sol.states[i] - ref_at(tout[i])))) for i in range(len(tout)))
        if err > 2e3 * tol + 1e-10: bad["adaptive_%d_tol_%g" % (order, tol)] = "max error %.2e on the output grid" % err
_verdict(bool(bad), **bad)
'''


def main():
    chk = Check(PID)
    chk.default_replay = _replay_general
    import hiten.algorithms.integrators.rk as rkmod
    thorough = chk.tier == 'thorough'
    chk.encode(rkmod.rk_embedded_step_jit_kernel, rkmod.rk45_step_jit_kernel, rkmod.dop853_step_jit_kernel, rkmod.rk_embedded_step_ham_jit_kernel,
               rkmod.rk45_step_ham_jit_kernel, rkmod.dop853_step_ham_jit_kernel, rkmod._rk45_build_Q_cache, rkmod._rk45_eval_dense,
               rkmod._dop853_build_dense_cache, rkmod._dop853_build_dense_cache_ham, rkmod._dop853_eval_dense, rkmod._hermite_eval_dense,
               rkmod._FixedStepRK._integrate_fixed_rk, rkmod.RungeKutta.__new__, rkmod.FixedRK.__new__, rkmod.AdaptiveRK.__new__)
    chk.bound(trees='all rooted trees up to order 8 (200 trees): complete for the declared orders', h='symbolic in (0,1]', theta='symbolic in [0,1]',
              eps='1e-13 on the weighted sum of coefficient residuals (the tables are decimal/rational approximations)',
              driver='fixed-step driver: 3-node non-uniform grid; adaptive driver loops unwound to 2 kernel calls with kernels/controllers uninterpreted (contracts discharged on the real helpers)')
    chk.assume('tableau entries are read as the simplest rational that rounds to the stored double (else its shortest decimal)',
               'f is an arbitrary smooth vector field: elementary differentials are independent, so coefficients are compared tree by tree')
    chk.trust('B-series theorem (Butcher; Hairer-Norsett-Wanner II.2): order p for every smooth f  <=>  a(t) = 1/gamma(t) for all |t| <= p',
              'non-autonomous problems reduce to autonomous ones when c_i = sum_j a_ij (checked as stage-times)')
    chk.out_of_scope('global error vs tolerance of an adaptive run (no theorem; made plausible by (2) and the controller skeleton)', 'floating-point rounding, stiffness')
    ex = Explorer()
    h, theta = W.var('h'), W.var('theta')
    t_start = time.time()
    fixed = {}
    for p_ in (4, 6, 8):
        integ, Y = run_fixed(chk, ex, rkmod, p_, h)
        fixed[p_] = (integ, Y)
    rk45 = run_rk45(chk, ex, rkmod, h, theta)
    dop = run_dop853(chk, ex, rkmod, h, theta)
    twins(chk, rkmod, h, theta, fixed, rk45, dop)
    cm_copy(chk, ex, fixed, h)
    hermite_dense(chk, ex, rkmod, fixed, h, theta)
    driver_chain(chk, ex, rkmod)
    zero_span(chk, rkmod)
    helper_contracts(chk)
    for scheme in ('rk45', 'dop853'):
        for ham in (False, True):
            dense_callsites(chk, scheme, ham, 300)
    from harness.C10 import adaptive_skeleton
    for scheme in ('rk45', 'dop853'):
        adaptive_skeleton(chk, 'C02/(5)', scheme, False, 2, 300)
    chk.absorb(ex)
    chk.note('B-series part: %.1f s' % (time.time() - t_start))
    # translator validation: one compiled step of every scheme on y' = y^2 + t  vs the same step in exact rationals
    cases = []
    for name, call, sym_step in (
            ('rk4 step', "rk_embedded_step_jit_kernel(f, 0.25, np.array([0.5]), 0.125, RK4_A, RK4_B, np.empty(0), RK4_C, False)[0]", lambda: rkmod.rk_embedded_step_jit_kernel(_fq, Sym.const(Fraction(1, 4)), np.array([Sym.const(Fraction(1, 2))]), Sym.const(Fraction(1, 8)), rkmod.RK4_A, rkmod.RK4_B, np.empty(0), rkmod.RK4_C, False)[0]),
            ('rk8 step', "rk_embedded_step_jit_kernel(f, 0.25, np.array([0.5]), 0.125, RK8_A, RK8_B, np.empty(0), RK8_C, False)[0]", lambda: rkmod.rk_embedded_step_jit_kernel(_fq, Sym.const(Fraction(1, 4)), np.array([Sym.const(Fraction(1, 2))]), Sym.const(Fraction(1, 8)), rkmod.RK8_A, rkmod.RK8_B, np.empty(0), rkmod.RK8_C, False)[0]),
            ('rk45 step', "rk45_step_jit_kernel(f, 0.25, np.array([0.5]), 0.125, RK45_A, RK45_B_HIGH, RK45_C, RK45_E)[0:3]", lambda: rkmod.rk45_step_jit_kernel(_fq, Sym.const(Fraction(1, 4)), np.array([Sym.const(Fraction(1, 2))]), Sym.const(Fraction(1, 8)), rkmod.RK45_A, rkmod.RK45_B_HIGH, rkmod.RK45_C, rkmod.RK45_E)[0:3]),
    ):
        with explore.activate(Explorer()):
            val = sym_step()
        cases.append((name, call, validate.flat(list(val) if isinstance(val, tuple) else val), 'y=1/2,t=1/4,h=1/8, f=y^2+t'))
    errs = validate.compare(chk, 'from hiten.algorithms.integrators.rk import *\nimport numba\n@numba.njit\ndef f(t, y):\n    return y*y + t\n', cases, rtol=1e-12)
    for name, err, expr in errs:
        chk.inconclusive.append('real build raised in validation of %s: %s' % (name, err))
    return chk.finish()


def _fq(t, y):
    return y * y + t


if __name__ == '__main__':
    sys.exit(main())

"""C11 — event detection returns the first admissible crossing, on the trajectory."""
from __future__ import annotations

import sys
from fractions import Fraction

import z3

from harness.common import *  # noqa: F401,F403
from harness.common import np, Explorer, Check, Sym, W, model_to_env, fmt_env, explore, And, Or, Not, Implies, opaque, SymBool
from harness import drivers as D
from harness.drivers import same
from engine.fp import FP

PID = 'C11'


# --------------------------------------------------------------------------- (1) IEEE truth tables

def fp_truth_tables(chk):
    import hiten.algorithms.integrators.utils as U
    chk.encode(U._event_crossed, U._crossed_direction, U._bisection_update, U._bracket_converged)
    g0, g1 = FP.var('g_prev'), FP.var('g_new')
    zero = z3.FPVal(0.0, z3.Float64())
    lt = lambda a: z3.fpLT(a.z, zero)
    gt = lambda a: z3.fpGT(a.z, zero)
    eq0 = lambda a: z3.fpEQ(a.z, zero)
    for fname, fn, with_zero in (('_event_crossed', U._event_crossed, True), ('_crossed_direction', U._crossed_direction, False)):
        for direction in (0, 1, 2, -1, -3):
            ex = Explorer(max_paths=200, query_timeout_ms=60000)
            paths = ex.run(lambda: bool(fn(g0, g1, direction)))
            up = z3.And(lt(g0), gt(g1))
            down = z3.And(gt(g0), lt(g1))
            spec = z3.Or(up, down) if direction == 0 else (up if direction > 0 else down)
            if with_zero:
                spec = z3.Or(spec, eq0(g1))
            bad = None
            for p in paths:
                if p.exc is not None:
                    bad = 'raised %r' % (p.exc,)
                    break
                ret = bool(p.value)
                v, m = ex.check(p.conds() + [spec != z3.BoolVal(ret)], ())
                if v != 'unsat':
                    bad = (v, m, ret)
                    break
            # NaN never crosses
            nan_ok = True
            for p in paths:
                if p.exc is None and bool(p.value):
                    v, m = ex.check(p.conds() + [z3.fpIsNaN(g1.z) if with_zero else z3.Or(z3.fpIsNaN(g0.z), z3.fpIsNaN(g1.z))], ())
                    if v != 'unsat':
                        nan_ok = False
            chk.absorb(ex)
            oid = 'C11/(1)IEEE/%s/direction=%d' % (fname, direction)
            if bad is None and nan_ok:
                chk.ok(oid, '%d paths: result <=> strict sign change compatible with the direction%s, for all float64 pairs incl. NaN, +-0, inf' % (len(paths), ' or g_new == 0' if with_zero else ''),
                       sample={'paths': len(paths)} if direction == 0 else None)
            elif isinstance(bad, tuple) and bad[0] == 'sat':
                m = bad[1]
                a = _fpval(m, g0.z)
                b = _fpval(m, g1.z)
                chk.fail(oid, 'returns %s for g_prev=%r, g_new=%r but the specification says %s' % (bad[2], a, b, not bad[2]), '''
from hiten.algorithms.integrators.utils import %s as fn
a, b, d = float(%r), float(%r), %d
got = bool(fn(a, b, d))
up = a < 0.0 and b > 0.0; down = a > 0.0 and b < 0.0
spec = (up or down) if d == 0 else (up if d > 0 else down)
if %r: spec = spec or b == 0.0
_verdict(got != spec, got=got, spec=spec, g_prev=a, g_new=b)
''' % (fname, repr(a), repr(b), direction, with_zero), {'g_prev': repr(a), 'g_new': repr(b)})
            else:
                chk.unknown(oid, str(bad))
    # _bisection_update / _bracket_converged on reals
    a, b, gl, mid, gm, h, xtol = W.vars('ba bb gl mid gm hh xtol')
    for crossed in (True, False):
        r = U._bisection_update(a, b, gl, mid, gm, crossed)
        ok = (same(r[0], a) and same(r[1], mid) and same(r[2], gl)) if crossed else (same(r[0], mid) and same(r[1], b) and same(r[2], gm))
        (chk.ok if ok else (lambda o, d: chk.fail(o, d, None)))('C11/(2)bisection-update/crossed=%s' % crossed,
                                                                 'keeps the half that contains the sign change (right end := mid, or left end and left value := mid)')
    ex = Explorer()
    ex.abs_by_branch = False
    paths = ex.run(lambda: bool(U._bracket_converged(a, b, h, xtol)))
    okc = True
    for p in paths:
        with explore.activate(ex):
            spec = (b - a) * abs(h) <= xtol
        v, m = ex.prove(p, spec if p.value else Not(spec))
        okc = okc and v == 'unsat'
    chk.absorb(ex)
    (chk.ok if okc else (lambda o, d: chk.fail(o, d, None)))('C11/(2)bracket-converged', 'true iff (b - a) * |h| <= xtol')


def _fpval(m, e):
    v = m.eval(e, model_completion=True)
    s = str(v)
    if 'NaN' in s:
        return float('nan')
    if 'oo' in s:
        return float('-inf') if s.startswith('-') else float('inf')
    try:
        sign = -1.0 if v.sign() else 1.0
        if v.isZero():
            return sign * 0.0
        return float(sign * float(v.significand_as_long()) * 2.0 ** (v.exponent_as_long(False) - 52))
    except Exception:
        return float(eval(s.replace('*(2**', '*(2.0**')))


# --------------------------------------------------------------------------- (2) bisection refinement

def refinement(chk, which, direction, iters, budget):
    """Real *_refine_in_step with the event function and the dense interpolant uninterpreted; loop unwound to `iters`
    event evaluations at midpoints."""
    import hiten.algorithms.integrators.rk as rk
    import hiten.algorithms.integrators.symplectic as sp
    dim = 1
    t0, h, xtol, gtol = W.vars('t0 h xtol gtol')
    y0 = np.array([W.var('ya')])
    y1 = np.array([W.var('yb')])
    f0 = np.array([W.var('fa')])
    f1 = np.array([W.var('fb')])
    tag = '%s/direction=%d/iterations<=%d' % (which, direction, iters)
    ex = Explorer(max_paths=6000, time_budget_s=budget, max_decisions=200)
    ex.abs_by_branch = False
    with explore.activate(ex):
        ex.assume(h > 0)
        ex.assume(xtol > 0)
        ex.assume(gtol >= 0)
    gcalls = []

    class Stop(Exception):
        pass

    lead = 2 if which.startswith('dop853') else 1

    def g(t, y):
        if len(gcalls) >= iters + lead:
            raise Stop()
        x = (Sym.lift(t) - t0) / h           # recover the interpolation parameter from the time argument
        r = opaque('G', Sym.lift(t), *[Sym.lift(v) for v in y])
        gcalls.append((x, t, y, r))
        return r

    mod = sp if which == 'symplectic-hermite' else rk
    names = {'hermite': ['_hermite_eval_dense'], 'rk45': ['_rk45_build_Q_cache', '_rk45_eval_dense'],
             'dop853': ['_dop853_build_dense_cache', '_dop853_eval_dense'], 'dop853_ham': ['_dop853_build_dense_cache_ham', '_dop853_eval_dense'],
             'symplectic-hermite': ['_hermite_eval_dense_symplectic']}[which]
    saved = {n: getattr(mod, n) for n in names}

    def interp(x):
        return np.array([opaque('I', Sym.lift(x))])
    if which in ('hermite', 'symplectic-hermite'):
        setattr(mod, names[0], lambda y0_, f0_, y1_, f1_, x, h_: interp(x))
    elif which == 'rk45':
        mod._rk45_build_Q_cache = lambda K, P, d: 'Q'
        mod._rk45_eval_dense = lambda yo, Q, P, x, hs: interp(x)
    else:
        setattr(mod, names[0], lambda *a, **k: 'F')
        mod._dop853_eval_dense = lambda yo, Fc, pw, x: interp(x)
    g_end = opaque('G', t0 + h, Sym.lift(y1[0]))     # event value at the right end of the step (known to the driver)
    g_start = opaque('G', t0, Sym.lift(y0[0]))

    def go():
        del gcalls[:]
        try:
            if which == 'hermite':
                r = rk._hermite_refine_in_step(g, t0, y0, f0, t0 + h, y1, f1, h, direction, xtol, gtol)
            elif which == 'symplectic-hermite':
                r = sp._hermite_refine_event_symplectic(g, t0, y0, f0, t0 + h, y1, f1, h, direction, xtol, gtol)
            elif which == 'rk45':
                r = rk._rk45_refine_in_step(g, t0, y0, t0 + h, y1, h, 'K', 'P', direction, xtol, gtol)
            elif which == 'dop853':
                r = rk._dop853_refine_in_step(None, g, t0, y0, f0, t0 + h, y1, f1, h, 'K', None, None, None, 16, 7, direction, xtol, gtol)
            else:
                Kop = np.array([[opaque('K%d' % r_) ] for r_ in range(13)])
                sv = rk._hamiltonian_rhs
                rk._hamiltonian_rhs = lambda y_, j_, c_, n_: np.array([opaque('HF', *[Sym.lift(v) for v in y_])])
                try:
                    r = rk._dop853_refine_in_step_ham(g, t0, y0, f0, t0 + h, y1, f1, h, Kop, rk.DOP853_A, rk.DOP853_C, rk.DOP853_D, rk.DOP853_N_STAGES_EXTENDED,
                                                      rk.DOP853_INTERPOLATOR_POWER, direction, xtol, gtol, None, None, 1)
                finally:
                    rk._hamiltonian_rhs = sv
            return ('done', r, list(gcalls))
        except Stop:
            return ('cut', None, list(gcalls))
    try:
        paths = ex.run(go)
    finally:
        for n, v in saved.items():
            setattr(mod, n, v)

    def compat(gl, gr):
        up = And(gl < 0, gr > 0)
        dn = And(gl > 0, gr < 0)
        return Or(up, dn) if direction == 0 else (up if direction > 0 else dn)
    ndone = 0
    for n, p in enumerate(paths):
        base = 'C11/(2)refine/%s/path %d' % (tag, n)
        if isinstance(p.exc, explore.PathAbort):
            continue
        if p.exc is not None:
            chk.fail(base, 'raised %r' % (p.exc,), None)
            continue
        status, r, gc = p.value
        _a = explore.activate(ex)
        _a.__enter__()
        try:
            # precondition of the call: the driver saw a strict, direction-compatible sign change over the step
            pre = compat(g_start, g_end)
            # replay the bisection on the recorded midpoint evaluations (spec): bracket [a,b] with values (ga, gb)
            a, b, ga, gb = Sym.const(0), Sym.const(1), g_start, g_end
            goals = []
            struct = same(gc[0][0], 0) if gc else True
            if lead == 2 and len(gc) > 1:
                struct = struct and same(gc[1][0], 1)
            hit_mid = None
            undecided_last = False
            mids = gc[lead:]
            for mi, (x, t, y, gv) in enumerate(mids):
                mid = (a + b) / 2
                struct = struct and same(x, mid) and same(y[0], opaque('I', mid))
                goals.append(compat(ga, gb))            # invariant: the bracket still holds a compatible sign change
                hit_mid = (mid, gv)
                # which half was kept is decided by the code; the spec keeps a half with a compatible change
                left_ok = compat(ga, gv)
                # reconstruct what the code did from the next midpoint (or the result)
                a_l, b_l = a, mid
                a_r, b_r = mid, b
                # we do not know the branch here; derive it from the path: crossed <=> compat(g_left, g_mid)
                # (the code's g_left must be ga: checked through the invariant goals below)
                took_left = _decide(ex, p, left_ok)
                if took_left is None:
                    if mi == len(mids) - 1 and status == 'done':
                        undecided_last = True      # tolerance exit before the sign test
                    else:
                        goals.append(False)
                    break
                if took_left:
                    b, gb = mid, gv
                else:
                    a, ga = mid, gv
            if status == 'done':
                ndone += 1
                t_hit, y_hit = r
                xh = (Sym.lift(t_hit) - t0) / h
                goals += [xh >= 0, xh <= 1]
                struct = struct and same(y_hit[0], opaque('I', xh))
                if hit_mid is not None:
                    # either the tolerance exit at the last midpoint, or the bracket exit at x = b with a converged bracket
                    mid, gv = hit_mid
                    tol_exit = And((xh - mid) == 0, abs(gv) <= gtol)
                    br_exit = And((xh - b) == 0, (b - a) * h <= xtol, compat(ga, gb))
                    goals.append(tol_exit if undecided_last else Or(tol_exit, br_exit))
        finally:
            _a.__exit__()
        if not struct:
            chk.fail(base, 'midpoints/interpolant arguments are not those of a bisection of [0,1] on the step interpolant', None)
            continue
        v, m, kk = ex.prove_all(p, goals, extra_assume=[pre])
        if v == 'unsat':
            chk.ok(base, '%s after %d midpoint evaluations: bracket invariant (compatible sign change), halving, x_hit in [0,1], t_hit = t0 + x_hit h, y_hit = interp(x_hit), exit by |g| <= gtol or bracket <= xtol/|h|' % (status, max(0, len(gc) - lead)),
                   sample={'status': status, 'midpoints': [repr(x) for x, *_ in gc[lead:]]} if n in (2, 9) else None)
        elif v == 'sat':
            env = model_to_env(m)
            chk.fail(base, 'bisection contract goal %d fails at %s' % (kk, fmt_env(env)), None, env)
        else:
            chk.unknown(base, v)
    st = chk.absorb(ex)
    chk.note('refine %s: %d paths, %d finished within the unwinding bound' % (tag, st['paths'], ndone))


def _decide(ex, p, cond):
    """Truth value of `cond` implied by the path condition (None if not determined)."""
    if not isinstance(cond, SymBool):
        return bool(cond)
    v1, _ = ex.prove(p, cond)
    if v1 == 'unsat':
        return True
    v2, _ = ex.prove(p, Not(cond))
    if v2 == 'unsat':
        return False
    return None


# --------------------------------------------------------------------------- (3) drivers

def _replay_driver(scheme, ham, direction):
    """Concrete confirmation on the compiled build: harmonic oscillator, event g = q1 - 1/2, every start side (below / above / on the
    plane / never reaching it) through the named driver; the reported hit must be the analytic first admissible crossing."""
    return """
from numba.typed import List
from hiten.algorithms.dynamics.hamiltonian import create_hamiltonian_system
from hiten.algorithms.dynamics.rhs import create_rhs_system
from hiten.algorithms.integrators import AdaptiveRK, RungeKutta
from hiten.algorithms.integrators.symplectic import N_SYMPLECTIC_DOF, N_VARS_POLY, P_POLY_INDICES, Q_POLY_INDICES, _ExtendedSymplectic
from hiten.algorithms.polynomial.base import _create_encode_dict_from_clmo, _encode_multiindex, _init_index_tables
from hiten.algorithms.types.configs import EventConfig
SCHEME, HAM, DIRECTION = %r, %r, %r
C, T_END = 0.5, 7.0
def ham_system():
    psi, clmo = _init_index_tables(2); enc = _create_encode_dict_from_clmo(clmo)
    H = [np.zeros(psi[N_VARS_POLY, d], dtype=np.complex128) for d in range(3)]
    for var in (Q_POLY_INDICES[0], P_POLY_INDICES[0]):
        k = np.zeros(N_VARS_POLY, dtype=np.int64); k[var] = 2
        H[2][_encode_multiindex(k, 2, enc)] = 0.5
    Hn = List()
    for a in H: Hn.append(a.copy())
    return create_hamiltonian_system(H_blocks=Hn, degree=2, psi_table=psi, clmo_table=clmo, encode_dict_list=enc, n_dof=N_SYMPLECTIC_DOF, name="osc")
def gen_system():
    def rhs(t, y):
        out = np.zeros(6); out[0] = y[3]; out[3] = -y[0]; return out
    return create_rhs_system(rhs, dim=6, name="osc generic")
def g(t, y):
    return y[0] - 0.5
def first_crossing(q0, p0, direction):
    A = np.hypot(q0, p0)
    if A <= C: return None
    phi = np.arctan2(p0, q0); alpha = np.arccos(C / A); cands = []
    for k in range(-2, 4):
        cands.append((phi + alpha + 2 * np.pi * k, -1)); cands.append((phi - alpha + 2 * np.pi * k, +1))
    for t, d in sorted(c for c in cands if 1e-9 < c[0] <= T_END):
        if direction == 0 or d == direction: return t
    return None
system = ham_system() if HAM else gen_system()
grid = np.linspace(0.0, T_END, 1401); span = np.array([0.0, T_END])
if SCHEME == "fixed": integ, tv, tol = RungeKutta(order=4), grid, 1e-6
elif SCHEME == "rk45": integ, tv, tol = AdaptiveRK(order=5, rtol=1e-10, atol=1e-12), span, 1e-6
elif SCHEME == "dop853": integ, tv, tol = AdaptiveRK(order=8, rtol=1e-10, atol=1e-12), span, 1e-6
else: integ, tv, tol = _ExtendedSymplectic(order=6, c_omega_heuristic=20.0), grid, 1e-5
bad = {}
for label, q0, p0 in (("below", 0.0, 1.0), ("above", 1.0, 0.0), ("on_plane", 0.5, 0.8), ("on_plane_other_way", 0.5, -0.8), ("never", 0.3, 0.0)):
    y0 = np.array([q0, 0.0, 0.0, p0, 0.0, 0.0])
    sol = integ.integrate(system, y0.copy(), tv, event_fn=g, event_cfg=EventConfig(direction=DIRECTION, terminal=True))
    t_hit = float(sol.times[-1]); t_ref = first_crossing(q0, p0, DIRECTION); t_ref = T_END if t_ref is None else t_ref
    if abs(t_hit - t_ref) > tol:
        bad[label] = "start %%s the plane, direction %%d: driver stops at t=%%.6f, first admissible crossing is at t=%%.6f" %% (label, DIRECTION, t_hit, t_ref)
_verdict(bool(bad), **bad)
""" % (scheme, bool(ham), direction)



def event_driver(chk, scheme, ham, direction, max_steps, budget):
    import hiten.algorithms.integrators.rk as rk
    dim = 1
    tr = D.Tracker(dim, max_steps)
    tA, tB = W.var('tA'), W.var('tB')
    y0 = np.array([W.var('y0_0')])
    rtol, atol, hmax, hmin, xtol, gtol = W.vars('rtol atol max_step min_step xtol gtol')
    tag = '%s%s/direction=%d' % (scheme, '_ham' if ham else '', direction)
    ex = Explorer(max_paths=6000 if budget <= 600 else 40000, time_budget_s=budget, max_decisions=200)
    ex.abs_by_branch = False
    with explore.activate(ex):
        ex.assume(tA < tB)
        for c in (rtol > 0, atol > 0, hmin > 0, hmin <= hmax, xtol > 0, gtol >= 0):
            ex.assume(c)
    g = D.event_fn(tr)
    mid_t = W.var('tM')
    if scheme == 'fixed':
        with explore.activate(ex):
            ex.assume(tA < mid_t)
            ex.assume(mid_t < tB)
        grid = np.array([tA, mid_t, tB])

    def go():
        tr.reset()
        with D.stubbed(rk, tr, real_refine=False) as f:
            try:
                if scheme == 'fixed':
                    integ = rk.RungeKutta(order=4)
                    if ham:
                        r = rk._FixedStepRK._integrate_fixed_rk_until_event_ham(y0=y0, t_vals=grid, A=integ._A, B_HIGH=integ._B_HIGH, C=integ._C, event_fn=g, direction=direction,
                                                                                terminal=1, xtol=xtol, gtol=gtol, jac_H=None, clmo_H=None, n_dof=1)
                    else:
                        r = rk._FixedStepRK._integrate_fixed_rk_until_event(f=f, y0=y0, t_vals=grid, A=integ._A, B_HIGH=integ._B_HIGH, C=integ._C, event_fn=g, direction=direction,
                                                                            terminal=1, xtol=xtol, gtol=gtol)
                    r = (r[0], r[1], r[2], r[3][-1] if not r[0] else None)
                elif scheme == 'rk45':
                    cls = rk._RK45
                    kw = dict(y0=y0, t0=tA, tmax=tB, A=cls._A, B_HIGH=cls._B_HIGH, C=cls._C, E=cls._E, P=rk.RK45_P, rtol=rtol, atol=atol, max_step=hmax, min_step=hmin, order=5,
                              event_fn=g, direction=direction, terminal=1, xtol=xtol, gtol=gtol)
                    r = cls._integrate_rk45_until_event_ham(jac_H=None, clmo_H=None, n_dof=1, **kw) if ham else cls._integrate_rk45_until_event(f=f, **kw)
                else:
                    cls = rk._DOP853
                    kw = dict(y0=y0, t0=tA, tmax=tB, A=cls._A, B_HIGH=cls._B_HIGH, C=cls._C, E5=cls._E5, E3=cls._E3, D=rk.DOP853_D, n_stages_extended=rk.DOP853_N_STAGES_EXTENDED,
                              interpolator_power=rk.DOP853_INTERPOLATOR_POWER, A_full=rk.DOP853_A, C_full=rk.DOP853_C, rtol=rtol, atol=atol, max_step=hmax, min_step=hmin, order=8,
                              event_fn=g, direction=direction, terminal=1, xtol=xtol, gtol=gtol)
                    r = cls._integrate_dop853_until_event_ham(jac_H=None, clmo_H=None, n_dof=1, **kw) if ham else cls._integrate_dop853_until_event(f=f, **kw)
                return ('done', r, tr.snapshot())
            except D.StopUnwinding:
                return ('cut', None, tr.snapshot())
    paths = ex.run(go)

    def crossed_spec(gp, gn):
        up = And(gp < 0, gn > 0)
        dn = And(gp > 0, gn < 0)
        s = Or(up, dn) if direction == 0 else (up if direction > 0 else dn)
        return Or(s, gn == 0)
    nh = 0
    nfail = [0]

    def fail(base, what, env=None):
        # one replayed counterexample per driver/direction; further failing paths of the same driver are only counted
        nfail[0] += 1
        if nfail[0] == 1:
            chk.fail('C11/(3)driver/%s' % tag, '%s [%s]' % (what, base), _replay_driver(scheme, ham, direction), env)
    for n, p in enumerate(paths):
        base = 'C11/(3)driver/%s/path %d' % (tag, n)
        if isinstance(p.exc, explore.PathAbort):
            continue
        if p.exc is not None:
            fail(base, 'raised %r' % (p.exc,))
            continue
        status, r, snap = p.value
        steps, gc, refs = snap['steps'], snap['gcalls'], snap['refines']
        _a = explore.activate(ex)
        _a.__enter__()
        try:
            goals = []
            struct = []
            # event evaluated first at (t0, y0), then at the end of every accepted step, in order
            if not gc or not (same(gc[0][0], tA) and same(gc[0][1], y0)):
                struct.append('first event evaluation is not at (t0, y0)')
            acc = []      # accepted steps = those followed by an event evaluation at their end point
            gi = 1
            for s in steps:
                if gi < len(gc) and same(gc[gi][0], Sym.lift(s['t']) + s['h']) and same(gc[gi][1], s['yh']):
                    acc.append((s, gc[gi - 1][2], gc[gi][2]))
                    gi += 1
            if gi != len(gc):
                struct.append('an event evaluation does not correspond to the end of a step')
            hit = status == 'done' and bool(r[0])
            for k, (s, gp, gn) in enumerate(acc):
                last = k == len(acc) - 1
                if hit and last:
                    goals.append(crossed_spec(gp, gn))
                else:
                    goals.append(Not(crossed_spec(gp, gn)))
            if hit:
                nh += 1
                if len(refs) != 1:
                    struct.append('hit without exactly one refinement call')
                else:
                    s = acc[-1][0]
                    a = refs[0][1]
                    nums = [x for x in a if isinstance(x, Sym)]
                    # refinement called on the bracketing step (t, y) -> (t + h, y_high)
                    if not (any(same(x, s['t']) for x in nums) and any(same(x, Sym.lift(s['t']) + s['h']) for x in nums) and any(same(x, s['h']) for x in nums)):
                        struct.append('refinement not called on the bracketing step')
                    arrs = [x for x in a if hasattr(x, 'shape') and getattr(x, 'shape', None) == (1,)]
                    if not (any(same(x, s['y']) for x in arrs) and any(same(x, s['yh']) for x in arrs)):
                        struct.append('refinement not given the end states of the bracketing step')
                    # ... and, where the refinement takes them, the derivatives AT those two end states and the stage matrix of that very step
                    # (a stale derivative or the stages of another step make the dense interpolant, and so the hit, wrong)
                    rname = refs[0][0]
                    if rname in ('hermite', 'dop853', 'dop853h'):
                        F = lambda yv: D.vec('F', dim, *[Sym.lift(v) for v in np.asarray(yv).reshape(-1)])
                        if not (any(same(x, F(s['y'])) for x in arrs) and any(same(x, F(s['yh'])) for x in arrs)):
                            struct.append('refinement not given the field values at the two ends of the bracketing step')
                    if rname in ('rk45', 'dop853', 'dop853h') and 'K' in s:
                        mats = [x for x in a if hasattr(x, 'shape') and getattr(x, 'shape', None) == np.asarray(s['K']).shape]
                        if not any(same(x, s['K']) for x in mats):
                            struct.append('refinement not given the stage derivatives of the bracketing step')
                    th, yh = refs[0][1][0], None
                    if not same(r[1], opaque('t_hit', *[Sym.lift(x) for x in nums[:3]])):
                        struct.append('reported hit time is not the refined time')
            elif status == 'done':
                # no hit: final state = last accepted state, at t_max
                if acc:
                    if not same(r[2], acc[-1][0]['yh']):
                        struct.append('no-hit result is not the last accepted state')
                    goals.append((Sym.lift(acc[-1][0]['t']) + acc[-1][0]['h'] - tB) == 0)
                if not same(r[1], tB) and scheme != 'fixed':
                    goals.append((Sym.lift(r[1]) - tB) == 0)
        finally:
            _a.__exit__()
        if struct:
            fail(base, '; '.join(struct))
            continue
        v, m, kk = ex.prove_all(p, goals)
        if v == 'unsat':
            chk.ok(base, '%s, %d accepted steps%s: a hit is reported at the first step whose end values satisfy the crossing rule and at no earlier one; otherwise the last accepted state at t_max' % (
                status, len(acc), ', HIT' if hit else ''), sample={'status': status, 'accepted': len(acc), 'hit': hit} if n in (1, 4) else None)
        elif v == 'sat':
            env = model_to_env(m)
            fail(base, 'event-driver contract goal %d fails at %s' % (kk, fmt_env(env)), env)
        else:
            chk.unknown(base, v)
    st = chk.absorb(ex)
    chk.note('driver %s: %d paths, %d with a hit%s' % (tag, st['paths'], nh, ', %d paths violate the contract' % nfail[0] if nfail[0] else ''))


def symplectic_event_driver(chk, direction):
    import hiten.algorithms.integrators.symplectic as sp
    chk.encode(sp._integrate_symplectic_until_event, sp._hermite_refine_event_symplectic)
    T = [W.var('g%d' % k) for k in range(3)]
    y0 = np.array([W.var('q%d' % i) for i in range(6)])
    xtol, gtol = W.vars('xtol gtol')
    ex = Explorer(max_paths=500)
    with explore.activate(ex):
        ex.assume(T[0] < T[1])
        ex.assume(T[1] < T[2])
    gc, steps, refs = [], [], []
    saved = (sp._recursive_update_poly, sp._get_tao_omega, sp._eval_hamiltonian_derivative, sp._hermite_refine_event_symplectic)

    exts = []

    def upd(q_ext, dt, order, omega, jac_H, clmo_H):
        a = [Sym.lift(v) for v in q_ext] + [Sym.lift(dt)]
        steps.append(dt)
        before = list(a[:-1])
        for i in range(len(q_ext)):
            q_ext[i] = opaque('U%d' % i, *a)
        exts.append((before, [Sym.lift(v) for v in q_ext]))

    def g(t, y):
        r = opaque('G', Sym.lift(t), *[Sym.lift(v) for v in y])
        gc.append((t, y.copy(), r))
        return r

    def ref(event_fn, t0, y0_, f0, t1, y1, f1, h, direction_, xtol_, gtol_):
        refs.append((t0, y0_.copy(), t1, y1.copy(), h))
        return opaque('t_hit', Sym.lift(t0), Sym.lift(t1)), np.array([opaque('yh%d' % i, Sym.lift(t0), Sym.lift(t1)) for i in range(6)])
    sp._recursive_update_poly = upd
    sp._get_tao_omega = lambda dt, order, c: opaque('omega', dt)
    sp._eval_hamiltonian_derivative = lambda Q, P, j, c: np.array([opaque('HF%d' % i, *[Sym.lift(v) for v in list(Q) + list(P)]) for i in range(6)])
    sp._hermite_refine_event_symplectic = ref

    def go():
        del gc[:], steps[:], refs[:], exts[:]
        r = sp._integrate_symplectic_until_event(y0, np.array(T), None, None, 4, g, direction, xtol, gtol, 20.0)
        return r, list(gc), list(refs), list(exts)
    try:
        paths = ex.run(go)
    finally:
        sp._recursive_update_poly, sp._get_tao_omega, sp._eval_hamiltonian_derivative, sp._hermite_refine_event_symplectic = saved

    def crossed_spec(gp, gn):
        up = And(gp < 0, gn > 0)
        dn = And(gp > 0, gn < 0)
        s = Or(up, dn) if direction == 0 else (up if direction > 0 else dn)
        return Or(s, gn == 0)
    for n, p in enumerate(paths):
        base = 'C11/(3)driver/symplectic/direction=%d/path %d' % (direction, n)
        if p.exc is not None:
            chk.fail(base, 'raised %r' % (p.exc,), None)
            continue
        (hit, t_hit, y_hit, traj), g_, r_, e_ = p.value
        with explore.activate(ex):
            goals = []
            for k in range(1, len(g_)):
                last = k == len(g_) - 1
                goals.append(crossed_spec(g_[k - 1][2], g_[k][2]) if (hit and last) else Not(crossed_spec(g_[k - 1][2], g_[k][2])))
        struct = same(g_[0][0], T[0]) and same(g_[0][1], y0) and all(same(g_[k][0], T[k]) for k in range(len(g_)))
        # the doubled state [Q, P, X, Y] is initialised once (X = Q, Y = P) and then CARRIED from step to step: the input of step k+1 is the
        # output of step k (rebuilding it from (Q, P) each step is no longer the extended-phase-space map of C16)
        if e_:
            n_ = len(y0) // 2
            init = list(y0) + list(y0)
            struct = struct and len(e_[0][0]) == 2 * len(y0) and all(same(u, v) for u, v in zip(e_[0][0], init))
            for k in range(1, len(e_)):
                struct = struct and all(same(u, v) for u, v in zip(e_[k][0], e_[k - 1][1]))
        if hit:
            struct = struct and len(r_) == 1 and same(r_[0][0], T[len(g_) - 2]) and same(r_[0][2], T[len(g_) - 1]) and same(r_[0][1], g_[-2][1]) and same(r_[0][3], g_[-1][1])
        else:
            struct = struct and len(g_) == 3 and same(y_hit, g_[-1][1]) and same(t_hit, T[2])
        v, m, kk = ex.prove_all(p, goals)
        if struct and v == 'unsat':
            chk.ok(base, 'hit=%s after %d steps: first step whose end values satisfy the crossing rule; refinement on that step; else last state at the end of the grid' % (bool(hit), len(g_) - 1))
        else:
            chk.fail(base, 'symplectic event driver contract fails (struct=%s, solver=%s)' % (struct, v), _replay_driver('symplectic', True, direction))
    chk.absorb(ex)


def integrate_packaging(chk):
    """integrate(): a hit is packaged as times [t0, t_event], states [y0, y_event]; no hit as [t0, tmax], [y0, y_last]."""
    import hiten.algorithms.integrators.rk as rk
    from hiten.algorithms.dynamics.rhs import create_rhs_system
    from hiten.algorithms.types.configs import EventConfig
    tA, tB, th = W.vars('tA tB tHit')
    y0 = np.array([W.var('y0_0')])
    ye, yl = np.array([W.var('yE')]), np.array([W.var('yL')])
    ex = Explorer()
    with explore.activate(ex):
        ex.assume(tA < tB)
    for name, cls, attr in (('rk45', rk._RK45, '_integrate_rk45_until_event'), ('dop853', rk._DOP853, '_integrate_dop853_until_event'), ('fixed', rk._FixedStepRK, '_integrate_fixed_rk_until_event')):
        for hit in (True, False):
            saved = cls.__dict__[attr]
            got = {}

            def drv(**k):
                got.update(k)
                if name == 'fixed':
                    return (hit, th, ye, np.array([[W.var('r0')], [W.var('r1')]]))
                return (hit, th, ye, yl)
            setattr(cls, attr, staticmethod(drv))
            try:
                integ = rk.RungeKutta(order=4) if name == 'fixed' else rk.AdaptiveRK(order=5 if name == 'rk45' else 8)
                with explore.activate(ex):
                    sol = integ.integrate(create_rhs_system(lambda t, y: y, 1), y0, np.array([tA, tB]), event_fn=lambda t, y: y[0], event_cfg=EventConfig(direction=-1, terminal=True))
            finally:
                setattr(cls, attr, saved)
            if hit:
                ok = same(sol.times, [tA, th]) and same(sol.states[0], y0) and same(sol.states[1], ye)
            else:
                last = np.array([W.var('r1')]) if name == 'fixed' else yl
                ok = same(sol.times, [tA, tB]) and same(sol.states[0], y0) and same(sol.states[1], last)
            ok = ok and got.get('direction') == -1
            (chk.ok if ok else (lambda o, d: chk.fail(o, d, None)))('C11/(3)packaging/%s/hit=%s' % (name, hit), 'times/states packaging and direction forwarding of integrate()')
    chk.absorb(ex)


def main():
    chk = Check(PID)
    chk.default_replay = lambda: _replay_driver('dop853', True, 0)
    import hiten.algorithms.integrators.rk as rk
    thorough = chk.tier == 'thorough'
    chk.encode(rk._hermite_refine_in_step, rk._rk45_refine_in_step, rk._dop853_refine_in_step, rk._dop853_refine_in_step_ham,
               rk._FixedStepRK._integrate_fixed_rk_until_event, rk._FixedStepRK._integrate_fixed_rk_until_event_ham, rk._RK45._integrate_rk45_until_event,
               rk._RK45._integrate_rk45_until_event_ham, rk._DOP853._integrate_dop853_until_event, rk._DOP853._integrate_dop853_until_event_ham)
    it = 4 if thorough else 3
    ms = 3 if thorough else 2
    chk.bound(truth_tables='all float64 pairs (QF_FP), directions {0, 1, 2, -1, -3}', bisection='unwound to %d midpoint evaluations (of 128); no inductive claim beyond' % it,
              drivers='<= %d kernel calls (RK45, fixed; DOP853: 2) / 2 steps (symplectic), state dimension 1 (6 symplectic)' % ms)
    chk.assume('event function, vector field, step kernels, controller helpers and the dense interpolant are uninterpreted functions',
               'refinement precondition: the driver saw a strict direction-compatible sign change over the step (an exact zero at the step end is returned by the tolerance exit)',
               'h > 0, xtol > 0, gtol >= 0')
    chk.out_of_scope('several crossings inside one integration step ("first" is claimed at step granularity)', 'accuracy of the located time beyond the exit conditions',
                     'that the interpolant is the scheme\'s dense output of the right order: C02-(3)')
    fp_truth_tables(chk)
    for which in ('hermite', 'rk45', 'dop853', 'dop853_ham', 'symplectic-hermite'):
        refinement(chk, which, 0, it, 600)
    for d in (1, -1):
        refinement(chk, 'hermite', d, it, 600)
    for scheme in ('fixed', 'rk45', 'dop853'):
        for ham in (False, True):
            # three kernel calls through DOP853's error-norm logic exceed 40000 paths: DOP853 stays at two kernel calls in the thorough tier
            event_driver(chk, scheme, ham, 0, 2 if scheme == 'dop853' else ms, 3000 if thorough else 600)
    for d in (1, -1):
        event_driver(chk, 'rk45', False, d, ms, 3000 if thorough else 600)
        if thorough:
            event_driver(chk, 'dop853', False, d, 2, 3000)
            event_driver(chk, 'fixed', False, d, ms, 3000)
    for d in (0, 1, -1):
        symplectic_event_driver(chk, d)
    integrate_packaging(chk)
    return chk.finish()


if __name__ == '__main__':
    sys.exit(main())

"""C09 — centre-manifold points map to synodic states consistently in position and energy."""
from __future__ import annotations

import sys
import time
from fractions import Fraction

from harness.common import *  # noqa: F401,F403
from harness.common import np, Explorer, Check, Sym, W, explore, Stub, normal, model_to_env, fmt_env, opaque, prove_zero
from harness.drivers import same
from harness import polyref as R
import engine.symnp as snp

PID = 'C09'


def identity_expansions(psi, clmo, N):
    import hiten.algorithms.polynomial.base as pb
    out = []
    for i in range(6):
        blocks = [pb._make_poly(d, psi) for d in range(N + 1)]
        k = [0] * 6
        k[i] = 1
        pos = [p for p in range(len(blocks[1])) if R.unpack(clmo[1][p], 1) == tuple(k)][0]
        blocks[1][pos] = 1.0
        out.append(blocks)
    return out


def glue(chk):
    """(1) every linear/affine stage is undone by its partner and the 4-D <-> 6-D embeddings use consistent slots: with identity
    Lie expansions the chain synodic_to_cm o cm_point_to_synodic is exactly the identity on symbolic centre-manifold points;
    the stage order is recorded."""
    from hiten.algorithms.types.services import center as cs
    import hiten.algorithms.hamiltonian.transforms as tf
    import hiten.algorithms.polynomial.base as pb
    from harness.C18 import make_points
    cls = cs._CenterManifoldDynamicsService
    chk.encode(cls._cm_point_to_synodic_4d, cls.synodic_to_cm, cls._restrict_to_center_manifold, cls.cm_point_to_synodic)
    pL1, pL2, pT, (Cf, Cfi), (gamma, mu, aa) = make_points()
    snp.EXACT_SQRT[0] = True      # 1/sqrt(2) of the complexification exact in Q(sqrt 2)
    N = 2
    psi, clmo = pb._init_index_tables(N)
    ident = identity_expansions(psi, clmo, N)
    cm = np.array([W.var('q2'), W.var('p2'), W.var('q3'), W.var('p3')])
    for name, point in (('sign=+1', pL1), ('sign=-1', pL2)):
        order = []
        svc = Stub(_point=point, _mix_pairs=(1, 2), hamsys=Stub(clmo_H=clmo, clmo=clmo),
                   pipeline=Stub(get_lie_expansions=lambda inverse=False, tol=1e-16: order.append('expansions inverse=%s' % inverse) or ident),
                   _local2synodic=lambda p, x, tol: order.append('local2synodic') or tf._local2synodic_collinear(p, x, tol),
                   _synodic2local=lambda p, x, tol: order.append('synodic2local') or tf._synodic2local_collinear(p, x, tol))
        svc._restrict_to_center_manifold = lambda c: cls._restrict_to_center_manifold(svc, c)
        saved = {n: getattr(cs, n) for n in ('_solve_complex', '_solve_real', '_coordrealmodal2local', '_coordlocal2realmodal', '_evaluate_transform')}
        for n, f in saved.items():
            setattr(cs, n, (lambda f_, n_: (lambda *a, **k: (order.append(n_), f_(*a, **k))[1]))(f, n))
        ex = Explorer(generic_nonzero=True)
        try:
            with explore.activate(ex):
                syn = cls._cm_point_to_synodic_4d(svc, cm, 1e-14)
                fwd_order = list(order)
                del order[:]
                back = cls.synodic_to_cm(svc, syn)
                back_order = list(order)
        finally:
            for n, f in saved.items():
                setattr(cs, n, f)
        chk.absorb(ex)
        ok = same(back, cm)
        want_f = ['_solve_complex', 'expansions inverse=False', '_evaluate_transform', '_solve_real', '_coordrealmodal2local', 'local2synodic']
        want_b = ['synodic2local', '_coordlocal2realmodal', '_solve_complex', 'expansions inverse=True', '_evaluate_transform', '_solve_real']
        oko = fwd_order == want_f and back_order == want_b
        (chk.ok if ok else (lambda o, d: chk.fail(o, d, _replay_roundtrip())))('C09/(1)linear-stages-and-slots/%s' % name, 'with identity Lie series: synodic_to_cm(cm_point_to_synodic(q2,p2,q3,p3)) = (q2,p2,q3,p3) exactly (symbolic mu, gamma, normal-form family): every stage is undone by its partner and the 4-D/6-D slots agree')
        (chk.ok if oko else (lambda o, d: chk.fail(o, d, None)))('C09/(3)stage-order/%s' % name, 'to synodic: complexify, forward Lie series, realify, modal->local, local->synodic; back: the inverses in reverse order%s' % ('' if oko else ' -- got %s / %s' % (fwd_order, back_order)))
        # the synodic image of the origin of the centre manifold is the libration point itself
        with explore.activate(Explorer(generic_nonzero=True)):
            o6 = cls._cm_point_to_synodic_4d(svc, np.array([0.0, 0.0, 0.0, 0.0]), 1e-14)
        okp = same(o6[1:], [0, 0, 0, 0, 0]) and same(o6[0], tf._local2synodic_collinear(point, np.zeros(6))[0])
        (chk.ok if okp else (lambda o, d: chk.fail(o, d, None)))('C09/(1)origin->libration-point/%s' % name, 'the centre-manifold origin maps to (x_L, 0, 0, 0, 0, 0)', nontrivial=False)
    snp.EXACT_SQRT[0] = False


def _replay_roundtrip():
    return '''
from hiten.system import System
N = 6
s = System.from_bodies("earth", "moon"); cm = s.get_libration_point(1).get_center_manifold(degree=N); cm.compute()
errs = []
for r in (8e-2, 4e-2):
    pt = r * np.array([0.3, -0.5, 0.4, 0.2])      # generic, non-planar
    back = cm.to_cm(cm.to_synodic(pt))
    errs.append(float(np.max(np.abs(back - pt))))
order = float(np.log2(errs[0] / max(errs[1], 1e-300)))
# the round trip must be the identity up to O(r^(N+1)): halving r divides the error by 2^(N+1); a wrong inverse shows a low order
_verdict(errs[1] > 1e-13 and order < N - 0.5, errors=errs, observed_order=order, required_order=N + 1)
'''


def _replay_lift():
    """Compiled build: a plane point of each of the four sections is lifted to the energy level h0 and mapped to the synodic frame;
    mapped back, it must lie on the section, carry the plane coordinates, and have centre-manifold energy h0."""
    return '''
import warnings; warnings.filterwarnings("ignore")
from hiten.system import System
from hiten.system.center import CenterManifold
from hiten.algorithms.polynomial.operations import _polynomial_evaluate
H0, PT = 0.05, (0.02, 0.03)
SLOT = {"q2": 0, "p2": 1, "q3": 2, "p3": 3}; PLANE = {"q3": ("q2", "p2"), "p3": ("q2", "p2"), "q2": ("q3", "p3"), "p2": ("q3", "p3")}
bad = {}
for k in (1, 2):
    cm = CenterManifold(System.from_bodies("earth", "moon").get_libration_point(k), 6); cm.compute()
    hs = cm.dynamics.hamsys
    def h_cm(c4):
        st = np.zeros(6, dtype=np.complex128); st[1], st[4], st[2], st[5] = c4[0], c4[1], c4[2], c4[3]
        return float(_polynomial_evaluate(hs.poly_H(), st, hs.clmo_table).real)
    for sec in ("q3", "p3", "q2", "p2"):
        tag = "L%d_section_%s" % (k, sec)
        try:
            syn = np.asarray(cm.to_synodic(np.array(PT), energy=H0, section_coord=sec), dtype=float); back = np.asarray(cm.to_cm(syn), dtype=float)
        except Exception as e:
            bad[tag] = "raised %s" % repr(e)[:80]; continue
        p0, p1 = PLANE[sec]
        if abs(back[SLOT[sec]]) > 1e-4: bad[tag + "_on_section"] = float(back[SLOT[sec]])
        elif max(abs(back[SLOT[p0]] - PT[0]), abs(back[SLOT[p1]] - PT[1])) > 1e-4: bad[tag + "_plane_coordinates"] = back.tolist()
        elif abs(h_cm(back) - H0) > 1e-3 * H0: bad[tag + "_energy"] = "H = %.6g instead of %.6g" % (h_cm(back), H0)
_verdict(bool(bad), **bad)
'''


def lie_roundtrip(chk, N):
    """(2) with the code's own forward/inverse Lie series of a symbolic Hamiltonian: to_cm o to_synodic = id mod degree N+1 on
    the centre manifold (the local<->synodic and modal<->local stages are exact inverses by (1) and are bypassed here because
    formal frequencies have no real/imaginary split)."""
    from hiten.algorithms.types.services import center as cs
    import hiten.algorithms.hamiltonian.center._lie as cl
    import hiten.algorithms.polynomial.base as pb
    from harness.C08 import build_H, H3_SUPPORT, H4_SUPPORT
    cls = cs._CenterManifoldDynamicsService
    psi, clmo = pb._init_index_tables(N)
    enc = pb._create_encode_dict_from_clmo(clmo)
    t0 = time.time()
    ex = Explorer(generic_nonzero=True)
    with explore.activate(ex):
        H, Href, point, modes = build_H((psi, clmo, enc), N, H3_SUPPORT[:5], H4_SUPPORT[:4], 'cm')
        Hn, G, elim = cl._lie_transform(point, H, psi, clmo, N, tol=1e-30)
        fwd = cl._lie_expansion(G, N, psi, clmo, 1e-30, inverse=False, sign=1, restrict=False)
        inv = cl._lie_expansion(G, N, psi, clmo, 1e-30, inverse=True, sign=-1, restrict=False)
        ident = lambda p, x, tol=None: x
        svc = Stub(_point=None, _mix_pairs=(1, 2), hamsys=Stub(clmo_H=clmo, clmo=clmo), pipeline=Stub(get_lie_expansions=lambda inverse=False, tol=1e-16: inv if inverse else fwd),
                   _local2synodic=ident, _synodic2local=ident)
        svc._restrict_to_center_manifold = lambda c: cls._restrict_to_center_manifold(svc, c)
        saved = (cs._coordrealmodal2local, cs._coordlocal2realmodal)
        cs._coordrealmodal2local = lambda p, x, tol=None: x
        cs._coordlocal2realmodal = lambda p, x, tol=None: x
        snp.EXACT_SQRT[0] = True
        from engine import sym as _symmod
        eps = W.var('eps')
        (em, _), = eps.t.items()
        _symmod.NILPOTENT[em[0][0]] = N          # eps^(N+1) = 0: all arithmetic is truncated at total degree N in the point
        try:
            cm0 = [W.var('q2'), W.var('p2'), W.var('q3'), W.var('p3')]
            cm = np.array([eps * v for v in cm0])
            six = cls._cm_point_to_synodic_4d(svc, cm, 1e-14)
            # synodic_to_cm reshapes through float64: call its stages on the symbolic 6-vector
            back = cls.synodic_to_cm(svc, six)
            ok = all(not normal(Sym.lift(back[i]) - cm[i]).t for i in range(4))
        finally:
            cs._coordrealmodal2local, cs._coordlocal2realmodal = saved
            snp.EXACT_SQRT[0] = False
            _symmod.NILPOTENT.clear()
    nontriv = any(len(normal(Sym.lift(six[i])).t) > 2 for i in range(6))
    st = chk.absorb(ex)
    oid = 'C09/(2)to_cm o to_synodic = id mod degree %d' % (N + 1)
    if ok and nontriv:
        chk.ok(oid, 'through the service glue with the code\'s forward and inverse series (N = %d, 9 symbolic coefficients, formal frequencies); %.1f s' % (N, time.time() - t0), sample={'N': N})
    else:
        chk.fail(oid, 'round trip differs from the identity below degree %d (non-trivial series: %s)' % (N + 1, nontriv), _replay_roundtrip(), None)


def section_lift(chk):
    """(4) solve_missing_coord / lift_plane_point: the returned root comes from a valid bracket [0, b] (res(0) <= 0 < res(b)) of the
    energy residual H(state) - h0 evaluated at the very state that is returned, whose section coordinate is exactly 0."""
    import hiten.algorithms.poincare.centermanifold.interfaces as ci
    import hiten.algorithms.polynomial.base as pb
    chk.encode(ci._CenterManifoldInterface.solve_missing_coord, ci._CenterManifoldInterface.lift_plane_point, ci._CenterManifoldSectionInterface.build_state,
               ci._CenterManifoldSectionInterface.build_constraint_dict)
    N = 3
    psi, clmo = pb._init_index_tables(N)
    enc = pb._create_encode_dict_from_clmo(clmo)
    spec = {2: [(0, 2, 0, 0, 0, 0), (0, 0, 0, 0, 2, 0), (0, 0, 2, 0, 0, 0), (0, 0, 0, 0, 0, 2)], 3: [(0, 2, 1, 0, 0, 0), (0, 0, 1, 0, 1, 1), (0, 1, 0, 0, 0, 2)]}
    iface = ci._CenterManifoldInterface()
    a, b_, h0 = W.vars('plane_a plane_b h0')
    for sc in ('q3', 'p3', 'q2', 'p2'):
        ex = Explorer(max_paths=200, generic_nonzero=False)
        with explore.activate(ex):
            ex.assume(h0 > 0)
            Hb, Href = R.make_sym_poly((psi, clmo, enc), spec, 'w%s' % sc)
        brackets = []

        def brent(f, lo, hi, **k):
            r = opaque('root', Sym.lift(lo), Sym.lift(hi))
            brackets.append((lo, hi, f(lo), f(hi), r, f(r)))
            return r
        saved = ci.solve_bracketed_brent
        ci.solve_bracketed_brent = brent
        ex.generic_nonzero = True      # zero-skip guards inside the polynomial evaluation
        try:
            def go():
                del brackets[:]
                return iface.lift_plane_point((a, b_), section_coord=sc, h0=h0, H_blocks=Hb, clmo_table=clmo, max_expand=1), list(brackets)
            paths = ex.run(go)
        finally:
            ci.solve_bracketed_brent = saved
        ok = True
        nret = 0
        for p in paths:
            if p.exc is not None:
                ok = False
                continue
            st, br = p.value
            if st is None:
                continue
            nret += 1
            q2, p2, q3, p3 = st
            six = [0, q2, q3, 0, p2, p3]
            lo, hi, flo, fhi, root, froot = br[0]
            sec = {'q2': q2, 'p2': p2, 'q3': q3, 'p3': p3}[sc]
            struct = not Sym.lift(sec).t and same(Sym.lift(lo), 0)
            # the residual whose root is returned is H(returned state) - h0
            struct = struct and not normal(Sym.lift(froot) - (R.peval(Href, six) - h0)).t
            # plane values sit in the plane slots, the root in the conjugate of the section coordinate
            plane = {'q3': (q2, p2), 'p3': (q2, p2), 'q2': (q3, p3), 'p2': (q3, p3)}[sc]
            miss = {'q3': p3, 'p3': q3, 'q2': p2, 'p2': q2}[sc]
            struct = struct and same(plane[0], a) and same(plane[1], b_) and same(miss, root)
            with explore.activate(ex):
                goals = [Sym.lift(flo) <= 0, Sym.lift(fhi) > 0, Sym.lift(hi) > 0]
            v, m, k = ex.prove_all(p, goals)
            ok = ok and struct and v == 'unsat'
        chk.absorb(ex)
        (chk.ok if ok and nret else (lambda o, d: chk.fail(o, d, _replay_lift())))('C09/(4)section-lift/%s' % sc, '%d paths (%d returning a state): root of H(state) - h0 from a bracket [0, b] with res(0) <= 0 < res(b); the returned 4-vector carries the plane point, the root in the conjugate slot and section coordinate exactly 0' % (len(paths), nret))


def main():
    chk = Check(PID)
    chk.default_replay = _replay_roundtrip
    thorough = chk.tier == 'thorough'
    chk.bound(N='Lie round trip N = %d; glue and slots exact (no bound); section lift on a degree-3 symbolic Hamiltonian, one bracket expansion' % (5 if thorough else 4))
    chk.assume('Brent by contract (returns a root of the residual inside a sign-changing bracket)', 'formal frequencies (rational-function identities) and generic-side cleaning as in C08')
    chk.trust('C07-(2),(3) (polynomial = Taylor expansion of the mapped energy), C08-(2) (H_new = H_old o Phi) and C18-(2) (polynomial changes agree with coordinate changes) compose to: '
              '(E(to_synodic(pt)) - E_L)/gamma^2 = H_cm(pt) mod degree N+1 -- the obligation decided here is that to_synodic composes exactly those maps in that order')
    chk.out_of_scope('the r^(N+1) scaling law as such, the domain of convergence', 'degrees above the bound')
    glue(chk)
    lie_roundtrip(chk, 5 if thorough else 4)
    section_lift(chk)
    return chk.finish()


if __name__ == '__main__':
    sys.exit(main())

#!/bin/bash
# Build /verif/.venv: an overlay on /venv (repo deps) plus z3-solver, cvc5, crosshair-tool
# from the offline wheelhouse.  Idempotent; offline only.
set -e
cd "$(dirname "$0")"
V=/verif/.venv
if [ ! -x "$V/bin/python" ] || ! "$V/bin/python" -c "import z3, numpy, crosshair, jsonschema" >/dev/null 2>&1; then
  rm -rf "$V"
  /venv/bin/python -m venv "$V"
  SP=$("$V/bin/python" -c "import sysconfig; print(sysconfig.get_paths()['purelib'])")
  echo "import site; site.addsitedir('/venv/lib/python3.12/site-packages')" > "$SP/zz_overlay.pth"
  PIP_NO_INDEX=1 "$V/bin/pip" install -q --no-index --find-links /opt/veriftools/wheels \
      z3-solver cvc5 crosshair-tool jsonschema >/dev/null
fi
"$V/bin/python" - <<'PY'
import z3, numpy, numba, scipy, crosshair, jsonschema
print("setup ok: z3", z3.get_version_string(), "numpy", numpy.__version__, "numba", numba.__version__)
PY

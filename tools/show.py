#!/venv/bin/python
"""show.py <file relative to /repo/src/hiten> [name ...]: print source without docstrings (dev aid)."""
import ast, sys
p = sys.argv[1]
if not p.startswith('/'):
    p = '/repo/src/hiten/' + p
src = open(p).read()
tree = ast.parse(src)
class Strip(ast.NodeTransformer):
    def _s(self, n):
        self.generic_visit(n)
        if n.body and isinstance(n.body[0], ast.Expr) and isinstance(getattr(n.body[0], 'value', None), ast.Constant) and isinstance(n.body[0].value.value, str):
            n.body = n.body[1:] or [ast.Pass()]
        return n
    visit_FunctionDef = visit_ClassDef = visit_AsyncFunctionDef = visit_Module = _s
t = Strip().visit(tree)
names = sys.argv[2:]
if not names:
    print(ast.unparse(t))
else:
    for node in ast.walk(t):
        if isinstance(node, (ast.FunctionDef, ast.ClassDef)) and node.name in names:
            print('# line', node.lineno)
            print(ast.unparse(node)); print()

#!/usr/bin/env python3
"""mutant.py <check id> <file relative to src/hiten> <old text> <new text> [--replay]
Apply a one-off text substitution to a scratch copy of /repo/src and run a check against it (dev self-test aid)."""
import os, shutil, subprocess, sys, tempfile
cid, rel, old, new = sys.argv[1:5]
replay = '--replay' in sys.argv
d = tempfile.mkdtemp(prefix='hiten_mut_', dir='/tmp')
try:
    shutil.copytree('/repo/src', os.path.join(d, 'src'), ignore=shutil.ignore_patterns('__pycache__', '_tests', '*.png'))
    p = os.path.join(d, 'src', 'hiten', rel)
    s = open(p).read()
    assert s.count(old) >= 1, 'pattern not found'
    open(p, 'w').write(s.replace(old, new, 1))
    env = dict(os.environ, HITEN_SRC=os.path.join(d, 'src'), VERIF_NO_EVIDENCE='1')
    if not replay:
        env['VERIF_MAX_REPLAYS'] = '0'
    r = subprocess.run(['/verif/check', cid], env=env, capture_output=True, text=True, timeout=3000)
    lines = [l for l in r.stdout.splitlines() if l.startswith(('VIOLATION', 'INCONCLUSIVE', 'KNOWN', '  violated')) or ' quick:' in l]
    print('\n'.join(l[:260] for l in lines[:8]))
    print('exit', r.returncode)
    if r.returncode not in (0, 1, 3):
        print(r.stderr[-1500:])
finally:
    shutil.rmtree(d, ignore_errors=True)

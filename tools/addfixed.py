#!/usr/bin/env python3
import json, subprocess, sys
pid, text = sys.argv[1], sys.argv[2]
h = subprocess.check_output(['git', '-C', '/repo', 'rev-parse', '--short', 'HEAD']).decode().strip()
p = '/verif/known_findings.json'
d = json.load(open(p))
d['fixed'].append('fixed: property=%s %s %s' % (pid, h, text))
json.dump(d, open(p, 'w'), indent=1)
print(d['fixed'][-1])

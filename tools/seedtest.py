#!/usr/bin/env python3
"""seedtest.py <worktree> <seed name> <check id> [<check id> ...]
Confirm a seeded change (demo passes without / fails with the patch), store it under /verif/seeded/<name>/, and run the
given checks against /repo with the patch applied (reverted afterwards)."""
import json, os, shutil, subprocess, sys
wt, name, checks = sys.argv[1], sys.argv[2], sys.argv[3:]
seed = os.path.join(wt, 'seed')
dst = os.path.join('/verif/seeded', name)
os.makedirs(dst, exist_ok=True)
for f in ('patch.diff', 'demo.py', 'meta.json'):
    shutil.copy(os.path.join(seed, f), os.path.join(dst, f))
def sh(cmd, **k):
    return subprocess.run(cmd, shell=True, capture_output=True, text=True, **k)
env = dict(os.environ, PYTHONPATH=os.path.join(wt, 'src'), NUMBA_NUM_THREADS='4')
# demo with the change (worktree has it applied)
r_with = sh('/venv/bin/python %s/demo.py' % dst, env=env, cwd='/tmp', timeout=1800)
sh('git -C %s diff -- src > /tmp/seedtest_change_%s.diff && git -C %s checkout -- src' % (wt, name, wt))     # (not git stash: the stash is shared between worktrees)
r_without = sh('/venv/bin/python %s/demo.py' % dst, env=env, cwd='/tmp', timeout=1800)
sh('git -C %s apply /tmp/seedtest_change_%s.diff' % (wt, name))
print('demo with change: rc=%d | without: rc=%d' % (r_with.returncode, r_without.returncode))
print('  with:', (r_with.stdout + r_with.stderr).strip()[-200:])
# does the patch apply to /repo?
a = sh('git -C /repo apply --check %s/patch.diff' % dst)
if a.returncode != 0:
    print('patch does not apply to /repo:', a.stderr[:300]); sys.exit(2)
VIA_SRC = os.environ.get('SEEDTEST_VIA_SRC') == '1'      # run the checks on the worktree's source instead of patching /repo (used while other jobs read /repo)
if not VIA_SRC:
    sh('git -C /repo apply %s/patch.diff' % dst)
results = {}
try:
    for c in checks:
        r = sh(('HITEN_SRC=%s/src ' % wt if VIA_SRC else '') + 'VERIF_NO_EVIDENCE=1 timeout 2400 /verif/check %s' % c)
        lines = [l for l in r.stdout.splitlines() if l.startswith(('VIOLATION', 'INCONCLUSIVE', 'KNOWN', '  violated')) or ' quick:' in l]
        results[c] = {'exit': r.returncode, 'lines': [l[:300] for l in lines[:6]]}
        print(c, 'exit', r.returncode)
        for l in lines[:6]: print('   ', l[:260])
finally:
    if not VIA_SRC:
        sh('git -C /repo checkout -- .')
    print('repo clean:', sh('git -C /repo status --short').stdout.strip() or 'yes')
meta = json.load(open(os.path.join(dst, 'meta.json')))
meta['confirmed'] = {'demo_rc_with_change': r_with.returncode, 'demo_rc_without_change': r_without.returncode,
                     'checks_run': results}
json.dump(meta, open(os.path.join(dst, 'meta.json'), 'w'), indent=1)

"""Source of MANIFEST.json (run tools/mkmanifest.py after editing)."""
HOOK_COMMITS = []
NOTES = ("Solver-based checking of the real source. Exit codes of ./check: 0 all obligations unsat within the stated bounds, "
         "1 replayed violation not listed in known_findings.json, 3 inconclusive (timeout/unknown/cap/translator mismatch).")
CHECKS = [
 {'id': 'C01',
  'technique': 'symbolic execution of the real kernels to exact normal forms; z3 decides residual != 0 (QF_NRA)',
  'level': 'Identities in 7 real variables (plus 36 for the STM block) decided for all values in the stated domain: Jacobian = derivative of the field, '
           'variational system = field + Jacobian*Phi in the code layout, every reported energy/Jacobi quantity has zero Lie derivative along the field. No loop bound is involved.',
  'note': 'float64 modelled as reals; chain-rule differentiation of the normal form is the derivative oracle; domain r1,r2 > 1e-3, 0 < mu <= 1/2; numba semantics = Python semantics (guarded by translator validation against the JIT build on every run)'},
]
_BUILT = {c['id'] for c in CHECKS}
NOT_APPLICABLE = [
 {'property_id': 'C%02d' % i, 'reason': 'harness not built yet in this round (planned, see DESIGN.md section 5); not claimed until its check exists'}
 for i in range(1, 21) if 'C%02d' % i not in _BUILT
]

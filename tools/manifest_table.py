"""Source of MANIFEST.json (run tools/mkmanifest.py after editing)."""
HOOK_COMMITS = []
NOTES = ("Solver-based checking of the real source. Exit codes of ./check: 0 all obligations unsat within the stated bounds, "
         "1 replayed violation not listed in known_findings.json, 3 inconclusive (timeout/unknown/cap/translator mismatch).")
CHECKS = [
 {'id': 'C01',
  'technique': 'symbolic execution of the real kernels to exact normal forms; z3 decides residual != 0 (QF_NRA)',
  'level': 'Identities in 7 real variables (plus 36 for the STM block) decided for all values in the stated domain: Jacobian = derivative of the field, '
           'variational system = field + Jacobian*Phi in the code layout, every reported energy/Jacobi quantity has zero Lie derivative along the field. No loop bound is involved.',
  'note': 'float64 modelled as reals; chain-rule differentiation of the normal form is the derivative oracle; domain r1,r2 > 1e-3, 0 < mu <= 1/2; numba semantics = Python semantics (guarded by translator validation against the JIT build on every run)'},
 {'id': 'C03',
  'technique': 'symbolic execution of _compute_stm/_propagate_dynsys/_DirectedSystem with a recording integrator stub; z3 decides residual != 0 (QF_NRA)',
  'level': 'For all states, mu and both directions: the right-hand side handed to the integrator is (forward * variational field) in all 42 components, with identity initial STM and consistent '
           'row-major extraction; F^T Omega + Omega F = 0 identically (so the exact STM is symplectic for the canonical two-form); services pass the orbit\'s own state and period.',
  'note': 'variational-equation and Liouville theorems turn the decided infinitesimal identities into the stated flow property; the numerical accuracy of the integrated STM is C02; tf >= 1e-3'},
 {'id': 'C19',
  'technique': 'path-exhaustive symbolic execution (z3 feasibility) of the connection kernels; KKT optimality certificates and filter contracts discharged by z3 per path',
  'level': 'Every path of the closest-point routine over all 8 real coordinates satisfies the KKT conditions of the convex distance problem (global optimality); radius search and the whole backend.run filter '
           '(mutual nearest, delta-v, label, sort, midpoint) are decided on every path for symbolic clouds up to the stated sizes.',
  'note': 'bounded cloud sizes (2x2, 2x3; 3x3/3x2 thorough); pairwise squared distances abstracted to free non-negative reals inside backend.run (sound over-approximation); float ties outside the claim'},
 {'id': 'C20',
  'technique': 'symbolic execution of the real cache/service classes (make_key, get_or_create, period setter, propagate, monodromy, stability, correct, apply_correction, generate) with every expensive computation an uninterpreted function of its logical inputs (z3 with functional-consistency axioms); all operation histories up to the bound x all equality patterns of the symbolic arguments decided per path',
  'level': 'Cache-key injectivity on the argument shapes used at the call sites (equal keys imply equal option leaves, decided by z3) and, for every operation history up to the bound on one orbit object, every observable equals '
           'the uninterpreted computation applied to the current logical state (fresh-twin model), for all values and coincidences of periods, states, tolerances.',
  'note': 'histories of length <= 3 (quick) / 4 (thorough) over 12 operations on the orbit dynamics/correction/continuation services; save/load, id()-keyed process-wide caches, manifold/torus/centre-manifold histories are outside (persistence and object identity have no symbolic content)'},
 {'id': 'C13',
  'technique': 'path-exhaustive symbolic execution of the predictor-corrector loop with the corrector outcome a free solver boolean per call (symbolic fault sequence); contracts discharged by z3 per path',
  'level': 'For every accept/reject sequence of the corrector within the bounds and all symbolic steps, targets and limits: member limit, counters = events, retry budget, predictions (natural and secant), '
           'step halving/clamping with sign, target-interval stop, member/aux/period alignment in the interface.',
  'note': 'on_reject also decided for an arbitrary symbolic shrink-policy output; max_members <= 3 (4 thorough), max_retries <= 1 (2 thorough), representation dim 2, parameter dim 1 (2 thorough); corrector/predictor outputs are fresh symbols; non-zero step components within [step_min, step_max] assumed'},
 {'id': 'C15',
  'technique': 'path-exhaustive symbolic execution of detect_on_trajectory and the cubic refinement on symbolic samples; per-path contracts and the Hermite derivative identity discharged by z3',
  'level': 'For all sample values/times within the bounds: detected on-surface and crossing sets equal the specification, alpha in [0,1], each hit on the plane and inside its bracket with time and state '
           'interpolated by the same parameter, hits time-ordered, nothing lost in dedup when candidates are separated; _hermite_der is the derivative of _hermite_scalar for all arguments; cubic refinement stays in its bracket.',
  'note': 'N = 3 samples (4 thorough), two concrete normals with symbolic/concrete offset, state dim 6; dense path (segment_refine = 1; 3 thorough; dyadic sub-interval lengths only) encoded for linear interpolation, its cubic variant only through the shared Hermite helpers; convergence order under refinement is analysis outside the claim'},
 {'id': 'C02',
  'technique': 'B-series value domain driven through the real step/dense-output kernels (symbolic h, theta); coefficient residuals bounded by a solver-checked certificate; explorer for the zero-span shortcut',
  'level': 'For every rooted tree up to the declared order (200 trees to order 8) the B-series of one step of the real kernels equals that of the exact flow; embedded estimators vanish to their order and not beyond; '
           'dense outputs match the exact flow for all theta in [0,1] to their order; Hamiltonian twins and the centre-manifold RK copy have identical B-series; the fixed-step driver chains steps correctly; '
           'the constant-solution shortcut fires only for an exactly zero span.',
  'note': 'B-series theorem turns the decided coefficient identities into "order p for every smooth right-hand side"; tables read as the rationals/decimals nearest the stored doubles, eps 1e-13 (1e-10 for the DOP853 dense table); global error of adaptive runs not claimed'},
 {'id': 'C10',
  'technique': 'symbolic execution of the direction wrapper, the propagator and the real driver loops with kernels/controllers uninterpreted (contracts as solver constraints); per-path obligations discharged by z3',
  'level': 'Directed right-hand side = documented negation for every flip set; returned times = forward * grid for fixed, adaptive and symplectic methods; fixed-step and symplectic drivers chain signed steps on any monotone grid; '
           'adaptive loops (RK45, DOP853, generic and Hamiltonian) never pass the end time, keep h in (0, max_step], advance only when the documented error norm <= 1, return y0 first, and a decreasing grid is rejected.',
  'note': 'backward wrappers for different flip_indices built consecutively on one system (compiled-wrapper cache not cleared); adaptive loops unwound to 2 kernel calls (3 thorough) with state dimension 1; kernels, field, _select_initial_step/_error_scale/_pi_*_factor are uninterpreted with their contracts; accuracy of round trips is C02'},
 {'id': 'C11',
  'technique': 'QF_FP truth tables for the crossing predicates; path-exhaustive symbolic execution (z3) of the bisection refinements and of all event drivers with event function, field, kernels and interpolant uninterpreted',
  'level': 'All float64 pairs: crossing predicates = strict direction-compatible sign change (or exact zero at the step end). Bisection: bracket invariant, halving, exit conditions, hit inside the step on the interpolant. '
           'Drivers (fixed/RK45/DOP853 x generic/Hamiltonian, symplectic): a hit is reported at the first accepted step satisfying the rule and refined on that step, filtered directions never trigger, otherwise the last state at t_max.',
  'note': 'bisection unwound to 3 (4 thorough) of 128 iterations; drivers to 2 kernel calls (thorough: 3 for RK45/fixed, DOP853 stays at 2) / 2 grid steps; the refinement must receive both end derivatives and the stage matrix of the bracketing step; "first" is at step granularity; interpolation order is C02-(3)'},
 {'id': 'C17',
  'technique': 'symbolic execution of the Hamiltonian right-hand side and evaluators on a polynomial with symbolic coefficients (z3 residual queries); syntactic/solver equivalence of generic vs Hamiltonian kernels and product-program exploration of the driver twins',
  'level': 'For all coefficient values and states: _hamiltonian_rhs, hamsys.rhs and the dH_dQ/dH_dP evaluators equal (dH/dP, -dH/dQ); each *_ham step kernel equals its generic twin for an arbitrary field; '
           'generic and Hamiltonian drivers (fixed, RK45, DOP853, with and without events) produce identical traces and results on every explored path; integrate() dispatches on the runtime protocol; one compiled-build evaluation of hamsys.rhs.',
  'note': 'in-step refinement twin: the DOP853 interpolation table of the Hamiltonian copy equals the generic one on symbolic data; H of degree <= 3 with 13 symbolic coefficients; driver product runs unwound to 2 kernel calls (DOP853: 1 quick, 2 thorough; others 3 thorough), refinement-call arguments compared, in state dimension 1 with shared uninterpreted kernels/helpers; zero-skip guards explored on the generic side'},
 {'id': 'C06',
  'technique': 'QF_BV queries on the real packing kernels; symbolic execution of the polynomial kernels on symbolic coefficients against an independent dictionary algebra (normal-form/z3 residuals); symbolic thread ids for the prange kernels (z3 over all assignments)',
  'level': 'Packing: decode(pack(k)) = k for all fields, injective per degree, table = bijection onto the multi-indices (exhaustive to the stated degree). Algebra: add, scale, multiply, power, differentiate, integrate, Poisson bracket, '
           'evaluate, Jacobian, linear/affine substitution return the mathematically defined coefficients for all coefficient values (real and complex). Schedules: no conflicting accesses and schedule-independent reduction for every assignment of 3 thread ids.',
  'note': 'operand degrees <= 2 with 5-6 symbolic coefficients (products to degree 4; 6 thorough), substitution degree <= 3; table enumeration to degree 14 (30 thorough); zero-skip guards and cleaning thresholds on the generic side; FP re-association outside the claim'},
 {'id': 'C18',
  'technique': 'symbolic execution of every registered conversion and of the coordinate maps on symbolic polynomials/points; equality with an independent substitution reference decided on exact normal forms over Q(sqrt 2, sqrt 3, i)',
  'level': 'Every edge of the conversion registry (found through the registry, not by name) executes; each linear/complexifying change satisfies P_new(x) = P_old(Lx) for the matrix the code uses; bidirectional edges compose to the identity; '
           'M M^-1 = I, solve_real/solve_complex, synodic<->local (collinear both signs, triangular) and modal<->local are exact inverses for symbolic inputs; polynomial and coordinate changes agree.',
  'note': 'degree <= 3 polynomials with 9 symbolic complex coefficients; normal-form matrix replaced by a symbolic symplectic shear family with closed-form inverse; Lie edges only executed (C08); generic-side zero-skip/cleaning policy'},
 {'id': 'C08',
  'technique': 'symbolic execution of the partial and full Lie transforms and of the coordinate expansions on a Hamiltonian with formal frequencies and symbolic higher-order coefficients; residual coefficients decided on exact rational-function normal forms against an independent composition/bracket reference',
  'level': 'For all frequencies (non-resonant) and coefficient values: every removable monomial of degree 3..N vanishes identically after the transform, H2 is untouched, H_new = H_old o Phi with the code\'s own forward series, '
           '{Phi_i, Phi_j} = J_ij and Phi^-1 o Phi = id to the stated order.',
  'note': 'elimination N <= 5 (6 thorough), composition obligations N <= 4 dense (5 with a reduced support, thorough); a sparse symbolic generator is taken to degree 8 (9 thorough) for canonicity and inverse o forward; H3, H4 supports of 7 symbolic coefficients (two supports, one seeded); non-resonance and generic-side cleaning assumed; dense Hamiltonians above these degrees outside'},
 {'id': 'C16',
  'technique': 'symbolic execution of the three sub-maps on a polynomial Hamiltonian with symbolic coefficients; Jacobians by engine differentiation; M^T J M = J, inverse and generator identities decided by z3 on normal forms (sin/cos atoms with s^2 = 1 - c^2); recorded composition structure and triple-jump condition',
  'level': 'For all extended states, sub-steps, coupling constants and coefficient values each sub-map is symplectic for dQ^dP + dX^dY, exactly reversible, and generated by its part of the extended Hamiltonian, which restricts to H on the diagonal; '
           'the order-2 scheme is the palindromic composition; the triple-jump fractions of orders 4, 6, 8 are checked against the order condition.',
  'note': 'H of degree <= 3 with 9 symbolic coefficients; composition/symmetry theorems lift sub-map facts to the full step; KNOWN FINDING: the triple-jump constant uses the outer order (orders 4, 6, 8 do not reach their declared order); long-time energy behaviour outside'},
 {'id': 'C07',
  'technique': 'symbolic execution of the series builders, the Hamiltonian assembly, the c_n formulas and the local<->synodic maps with symbolic mu, gamma; series identities Q S^2 = 1 (mod degree), field-through-map and Hessian identities decided on exact normal forms / by z3',
  'level': 'T_n and A_n are the degree-N Taylor polynomials of the inverse distances (no differentiation: generating identities); the assembled Hamiltonians equal the closed forms with the library\'s c_n, which equal the geometric coefficients of the primaries in the library\'s local frame; '
           'the exact mapped energy minus the closed form is affine, and the Hamiltonian flow pushed through local2synodic is the CR3BP field, for L1..L5 and all mu, gamma.',
  'note': 'N <= 6 (8 thorough) of the 10 in the statement; uniqueness of the power-series square root and "vanishing Hessian => affine" are the trusted steps; remainder size is analysis outside the claim'},
 {'id': 'C04',
  'technique': 'symbolic execution of the libration services with mu, gamma symbolic; NRA queries (z3) for equilibrium <=> quintic, monotonicity and bracket sign changes (Brent by contract, path-exhaustive); characteristic-polynomial and normal-form identities on normal forms modulo the defining relations',
  'level': 'For all mu in the stated range: the CR3BP field vanishes at x_k(gamma) iff the code\'s quintic vanishes; the root function is strictly monotone on each region (uniqueness, so ratio and position agree); the primary or fallback bracket always changes sign (also for the 19 catalogue ratios); '
           'L4/L5 are exact equilibria; the local linear matrix has the characteristic polynomial of the CR3BP Jacobian; C^T J C = J and H2 o C is the diagonal normal form modulo the eigen-relations.',
  'note': 'Brent/LAPACK behind contracts (convergence and mode selection outside); bracket and bracket-region obligations over mu in [1e-9, 1/2] (eight adjacent pieces) as named by the property; triangular linear modes not encoded'},
 {'id': 'C05',
  'technique': 'path-exhaustive symbolic execution (z3) of the Newton loop, the Armijo search and the plain step with residual map, norm, Jacobian and linear solve uninterpreted; implicit-function Jacobian identity against the real CR3BP field',
  'level': 'For all residual maps, norms, start points, tolerances and caps within the bounds: every normal return of the Newton backend reports residual_norm = N(R(x_corrected)) < tol and every other path raises ConvergenceError; Armijo never increases the residual norm and '
           'respects the step cap (else BackendError); the halo shooting Jacobian is the derivative of the crossing residual with the real accelerations; period = 2 * half period and the corrected state is written back after a cache reset.',
  'note': 'max_attempts <= 2 (3-4 thorough), 5 backtracking steps, dimension 2; LAPACK by contract; "the corrected orbit closes after one period" needs the flow map and is outside this family'},
 {'id': 'C12',
  'technique': 'symbolic execution of the seed construction, the service constructor/STM/filters (stubs recording arguments) and of the eigen-classification on symbolic spectra; normal-form identities and z3 path obligations',
  'level': 'For all transported matrices, eigenvectors, orbit points and displacements: seed - orbit point = displacement * direction * Phi(frac) v / |(Phi v)_pos| (snapping only below 1e-15); forward = -stable and every seed is propagated with it (all six components reversed); '
           'the STM feeding eigenvectors and transport is the forward one over one period; only eigenvectors with |lambda| < 1-delta / > 1+delta are offered as stable/unstable; retained trajectories passed the Jacobi filter, whose quantity is a first integral.',
  'note': 'propagation/STM/eigen-solver are stubs (contracts); 3x3 real spectra for the classification; numerical accuracy of PHI(frac) v outside'},
 {'id': 'C14',
  'technique': 'path-exhaustive symbolic execution (z3) of the crossing test and of the return-map step with integrator and field uninterpreted; access logging under permuted prange orders; product exploration of the engine over success patterns, worker counts and completion orders',
  'level': 'A return is reported exactly at the first step whose end states change the sign of the section coordinate strictly in the section\'s direction, refined at alpha in (0,1) with time elapsed + alpha dt; every write of seed i goes to cell i and output i depends on seed i only; '
           'every returned row has section coordinate exactly 0; the multiset of returned rows is identical for 1..3 workers and every completion order, for every success pattern of the per-seed map.',
  'note': '4 seeds, 2 map iterations, <= 2 integration steps per return, 3 workers (thorough: 5 and 7 seeds, 4 workers, 3 steps); direction convention read from the code comments; energy conservation and interpolation accuracy are numerics outside; RK copy = generic kernel is C02-(4)'},
 {'id': 'C09',
  'technique': 'symbolic execution of the centre-manifold <-> synodic service chain: exact round trip with identity series (normal forms over Q(sqrt 2, i)), truncated power-series arithmetic (nilpotent parameter) with the code\'s own Lie series, path-exhaustive exploration of the section lift with Brent by contract',
  'level': 'For symbolic points, mu, gamma and normal-form family: every linear stage is undone by its partner and the 4-D/6-D slots are consistent (exact round trip), stages are composed in the right order, to_cm o to_synodic = id mod degree N+1 with the code\'s forward/inverse series, '
           'and the section lift returns a root of H(returned state) - h0 from a valid bracket with the section coordinate exactly 0.',
  'note': 'N = 4 (5 thorough); the energy statement follows by composing C07, C08 and C18 facts (trusted chain; the glue obligation is decided here); scaling law and convergence domain outside'},
]
_BUILT = {c['id'] for c in CHECKS}
NOT_APPLICABLE = [
 {'property_id': 'C%02d' % i, 'reason': 'harness not built yet in this round (planned, see DESIGN.md section 5); not claimed until its check exists'}
 for i in range(1, 21) if 'C%02d' % i not in _BUILT
]

#!/usr/bin/env python3
"""Regenerate MANIFEST.json from tools/manifest_table.py (single source of truth)."""
import json, os, sys
sys.path.insert(0, os.path.dirname(__file__))
from manifest_table import CHECKS, NOT_APPLICABLE, HOOK_COMMITS, NOTES
checks = []
for c in CHECKS:
    pid = c['id']
    checks.append({
        'property_id': pid,
        'quick_cmd': './check %s --tier quick' % pid,
        'thorough_cmd': './check %s --tier thorough' % pid,
        'evidence_file': '/verif/evidence/%s.json' % pid,
        'replay_cmd_template': './check %s --replay {path}' % pid,
        'engine': 'symbolic-execution+z3',
        'level_claimed': {'category': 'other', 'text': c['level'], 'design_ref': 'DESIGN.md section 5, %s' % pid},
        'level_note': c['note'],
        'technique': c['technique'],
    })
m = {
    'version': 1,
    'setup_cmd': './setup.sh',
    'hooks': {
        'guard': 'HITEN_VERIF',
        'enable': 'no source hook is needed: checks load /repo/src through /verif/engine/loader.py (stand-in numba + import hook), which sets HITEN_VERIF=1 for its own process only',
        'baseline_off_cmd': 'cd /repo && /venv/bin/python -m pytest -ra -q -p no:cacheprovider --timeout=900 --continue-on-collection-errors',
        'source_commits': HOOK_COMMITS,
        'add_only': True,
    },
    'engines': [
        {'name': 'symbolic-execution+z3', 'path': '/verif/engine', 'serves_properties': [c['id'] for c in CHECKS],
         'kind_free_text': "hiten's own source executed over an exact symbolic value domain (polynomial normal form with sqrt/inverse/opaque atoms), path forking by z3 feasibility queries, obligations discharged by z3 (QF_NRA/LRA/BV/FP); counterexamples replayed on the JIT-compiled build"},
    ],
    'checks': checks,
    'not_applicable': NOT_APPLICABLE,
    'notes': NOTES,
}
json.dump(m, open(os.path.join(os.path.dirname(__file__), '..', 'MANIFEST.json'), 'w'), indent=1)
import jsonschema
jsonschema.validate(m, json.load(open('/root/.vp/MANIFEST.schema.json')))
print('MANIFEST.json written:', len(checks), 'checks,', len(NOT_APPLICABLE), 'not applicable')
